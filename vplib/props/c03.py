"""C03 - the unsampled solver converges to equilibrium at the CFR rate on every game."""
import math

from ..common import b2f, f2b
from ..gen import gen_tree, infosets_of, tree_stats
from ..ops import CaseBuilder
from ..solvers import level_tree, PRESETS, blind_guess_tree, tiny_unit, with_duplicate_action
from .. import oracle

SCOPE = {"solve", "named", "info"}
REL = 1e-6
N_QUICK = 60
N_THOROUGH = 1500
HARNESS_JOBS = 8
RULE = ("adversarial and random perfect-recall trees (deep chains, one infoset shared by >= 8 nodes, chance outcomes with "
        "weight ratio up to 1e4, dominated actions, level trees) x presets {vanilla, lcfr, cfr_plus, dcfr, dcfr_prune} x budgets "
        "T in {1,2,5,10,30,100,300,1000,3000} x threads {1,4}: (i) strategies/bounds vs the model for T <= 100, (ii) monitors: "
        "every per-player bound <= 2*D*N*sqrt(A)/sqrt(T) (vanilla: pass/fail, the property's clause; other presets: pass/fail as "
        "well, the theorem covers all parameter sets) and true regret of the returned profile <= "
        "6*D*N*(sqrt(A)+1/sqrt(T))/sqrt(T) for every preset, and regret at T=3000 below regret envelope; non-trivial = T >= 10 "
        "on a tree with >= 3 infosets; distinct by (tree, preset, T, threads)")
ASSUMPTIONS = ["clause 2 (true-regret rate) is proved for vanilla and lcfr only; for cfr_plus, dcfr, dcfr_prune it is decided by "
               "this monitor (Brown-Sandholm 2019 Thm 3 is not formalised)"]
BUDGETS = [1, 2, 5, 10, 30, 100, 300, 1000, 3000]


def chain_tree(rng, depth):
    """deep alternating chain: each decision has a terminal and a continuation"""
    def go(d, pl):
        if d == 0:
            return {"t": f2b(rng.uniform(-10, 10))}
        return {"p": pl, "i": 100 + d, "a": [[1, {"t": f2b(rng.uniform(-10, 10))}], [2, go(d - 1, 3 - pl)]]}
    t = go(depth, 1)
    return t, tree_stats(t)


def wide_tree(rng, width):
    """one chance node with `width` outcomes, all leading to the same infoset of player one (who cannot see the
    outcome), followed by a player-two infoset that sees it; includes a dominated action and rare outcomes"""
    outs = []
    for k in range(width):
        w = 1e-4 if k == 0 else float(rng.randint(1, 5))
        kids = []
        for a in (1, 2, 3):
            if a == 3:
                kids.append([a, {"t": f2b(-50.0 - k)}])       # dominated
            else:
                kids.append([a, {"p": 2, "i": 200 + k % 3, "a": [[1, {"t": f2b(rng.uniform(-10, 10))}],
                                                                   [2, {"t": f2b(rng.uniform(-10, 10))}]]}])
        outs.append([f2b(w), {"p": 1, "i": 7, "a": kids}])
    t = {"c": None, "o": outs}
    return t, tree_stats(t)


def generate(rng, tier, n):
    cases = []
    cid = 0
    while len(cases) < n:
        c = rng.random()
        forced_threads = None
        long_budgets = None
        forced_preset = None
        if len(cases) < 2:
            # the same player moves twice at the top, solved with several threads (frontier through two own decisions)
            from ..solvers import double_move_tree
            t, st = double_move_tree(rng, swap=len(cases) == 1)
            forced_threads = [4, 2][len(cases)]
        elif len(cases) == 2:
            # an infoset with more actions than any fixed-size scratch buffer
            from ..solvers import needle_tree
            t, st = needle_tree(rng, rng.choice([34, 40, 70]), pl=rng.choice([1, 2]))
        elif len(cases) in (3, 4):
            # budgets just beyond 2^16 iterations on a game with a properly mixed equilibrium
            from ..solvers import biased_rps_tree
            t, st = biased_rps_tree(rng)
            long_budgets = [65537, 65538 + rng.randrange(0, 9)]
            forced_preset = ["vanilla", "lcfr"][len(cases) - 3]
        elif c < 0.12:
            t, st = blind_guess_tree(rng)
        elif c < 0.25:
            t, st = chain_tree(rng, rng.choice([6, 10, 14]))
        elif c < 0.4:
            t, st = wide_tree(rng, rng.choice([8, 12]))
        elif c < 0.55:
            t, st = level_tree(rng, [3, rng.choice([11, 13]), rng.choice([12, 20])])
        else:
            t, st = gen_tree(rng, max_nodes=rng.choice([20, 50, 100]), max_depth=rng.choice([4, 6, 8]),
                             p_share=rng.choice([0.5, 0.8]), max_actions=rng.choice([2, 3, 4]))
        if rng.random() < 0.3:
            t2 = with_duplicate_action(rng, t)     # exact ties between two actions, in every iteration
            if t2 is not None:
                t = t2
                from ..gen import tree_stats
                st = tree_stats(t)
        multi, _ = infosets_of(t)
        if len(multi[1]) + len(multi[2]) < 2:
            continue
        preset = rng.choice(PRESETS)
        if forced_preset:
            preset = forced_preset
        threads = rng.choice([1, 4])
        if forced_threads:
            threads = forced_threads
        unit = None
        if rng.random() < 0.2:
            t, unit = tiny_unit(rng, t)
            if rng.random() < 0.4:
                from ..solvers import scale_payoffs
                t = scale_payoffs(t, 2.0 ** -1040 / unit)      # payoffs in the subnormal range (totals below 2^-1024)
                unit = 2.0 ** -1040
        cb = CaseBuilder(cid, t, {"stats": st, "preset": preset, "threads": threads, "unit": unit})
        cb.meta["runs"] = []
        for T in ((BUDGETS if tier == "thorough" else rng.sample(BUDGETS[:6], 3) + rng.sample(BUDGETS[6:], 1)) + (long_budgets or [])):
            long_ = T > 100     # rounding is amplified over long runs: the model is compared up to T = 100 only
            s = cb.solve("full", T, 0.0, threads, preset, kind="solve_long" if long_ else "solve")
            cb.info(s, kind="info_long" if long_ else "info")
            cb.meta["runs"].append((T, len(cb.ops) - 2))
            if not long_:
                cb.named(s)      # the strategies themselves (probabilities do not shrink with the payoff unit)
        cases.append(cb)
        cid += 1
    return cases


def game_constants(t):
    lo, hi = oracle.payoff_range(t)
    multi, _ = infosets_of(t)
    N = len(multi[1]) + len(multi[2])
    A = max([len(a) for pl in (1, 2) for _, a in multi[pl]] or [1])
    return hi - lo, N, A


def monitor(cb, impl):
    hits = []
    if "ops" not in impl:
        return hits
    D, N, A = game_constants(cb.tree)
    m = cb.meta
    for T, k in m["runs"]:
        s, info = impl["ops"][k], impl["ops"][k + 1]
        if "panic" in s or "panic" in info:
            hits.append(("panic at T=%d: %r" % (T, s.get("panic") or info.get("panic")), "panic"))
            continue
        if "ok" not in s or "ok" not in info:
            continue
        b1, b2, b = [b2f(x) for x in s["ok"]]
        reg = b2f(info["ok"][3])
        env_b = 2 * D * N * math.sqrt(A) / math.sqrt(T)
        env_r = 6 * D * N * (math.sqrt(A) + 1 / math.sqrt(T)) / math.sqrt(T)
        slack = 1e-9 * D      # the envelopes are homogeneous in the payoff unit
        for nm, x in (("one", b1), ("two", b2)):
            if not (x <= env_b + slack):
                hits.append(("%s, T=%d, %d threads: player %s bound %r exceeds 2*D*N*sqrt(A)/sqrt(T) = %r (D=%r N=%d A=%d)"
                             % (m["preset"], T, m["threads"], nm, x, env_b, D, N, A), "bound-rate"))
        if not (reg <= env_r + slack):
            hits.append(("%s, T=%d, %d threads: true regret %r exceeds 6*D*N*(sqrt(A)+1/sqrt(T))/sqrt(T) = %r (D=%r N=%d A=%d)"
                         % (m["preset"], T, m["threads"], reg, env_r, D, N, A), "regret-rate"))
    return hits


def nontrivial(cb, impl):
    multi, _ = infosets_of(cb.tree)
    return len(multi[1]) + len(multi[2]) >= 3 and any(T >= 10 for T, _ in cb.meta["runs"])


def classify(cb, impl):
    m = cb.meta
    out = ["preset_" + m["preset"], "threads_%d" % m["threads"]]
    D, N, A = game_constants(cb.tree)
    try:
        for T, k in m["runs"]:
            reg = b2f(impl["ops"][k + 1]["ok"][3])
            env_r = 6 * D * N * (math.sqrt(A) + 1 / math.sqrt(T)) / math.sqrt(T)
            b = b2f(impl["ops"][k]["ok"][2])
            env_b = 2 * D * N * math.sqrt(A) / math.sqrt(T)
            if reg / env_r > 0.05:
                out.append("regret_over_5pct_of_envelope")
            if b / env_b > 0.2:
                out.append("bound_over_20pct_of_envelope")
    except Exception:
        pass
    return out


def escalate(cb, cid0):
    """longer runs of the same game and preset: the envelopes shrink like 1/sqrt(T), a non-converging solver stays put"""
    m = dict(cb.meta)
    nb = CaseBuilder(cid0, cb.tree, m)
    nb.meta["runs"] = []
    for T in (1000, 3000, 10000):
        s = nb.solve("full", T, 0.0, m["threads"], m["preset"], kind="solve_long")
        nb.info(s, kind="info_long")
        nb.meta["runs"].append((T, len(nb.ops) - 2))
    return [nb]
