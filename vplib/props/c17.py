"""C17 - the CLI rejects malformed or unsupported input instead of solving it."""
import json
import re
from fractions import Fraction

from ..common import b2f, f2b
from .. import cli, clicases as cc

N_QUICK = 150
N_THOROUGH = 4000
RULE = ("corruption stream over generated valid JSON and Gambit files, read under every --input-format and both routes: "
        "JSON: dropped/renamed fields, wrong types, truncated text, trailing garbage, zero/negative probabilities (one weight, or every weight of a node), empty "
        "outcome/action maps, non-finite payoffs (1e999), library-contract violations (different action sets in one infoset, "
        "imperfect recall, unequal shared chance weights); Gambit: truncated text, bad header, probabilities not summing to one, "
        "one or three players, pair sums perturbed to just outside (rejected) and just inside (accepted) the 0.1% constant-sum "
        "tolerance computed in exact rationals, huge payoffs, an unnamed infoset whose number is another infoset's name, two "
        "infosets of one player with one name, the same name used by both players (must be accepted), contract violations; "
        "wrong-format reads (a JSON file, valid or corrupted, under --input-format gambit and vice versa, also under its own extension), unparsable text under auto.  Required on "
        "rejection: non-zero exit status, the documented diagnostic anchor on stderr, empty stdout and no -o file; on the "
        "accepted controls: exit 0 and a result object.  non-trivial = a rejected input; distinct by (text, options)")
ASSUMPTIONS = ["PARTIAL: rejection of malformed *text* is done by serde_json / gambit-parser (dependencies); for it this check is a "
               "test against the expected category computed by the generator, not a theorem",
               "the semantic categories (contract violation, constant-sum rule, infoset-name clashes) are the ones modelled in Coq"]

ANCHOR = {
    "json": "#json-error", "gambit": "#gambit-error", "auto": "#auto-error", "game": "#game-error",
    "constant-sum": "#constant-sum", "duplicate": "#duplicate-infosets", "players": "only supports two player",
    "non-finite": "non-finite payoffs",
}


JSON_KINDS = ["truncate", "garbage", "drop", "rename", "type", "prob", "empty", "payoff", "actions", "recall", "chance",
              "singles", "single-multi", "forgot", "chance-fine", "prob-all-negative"]


def corrupt_json(rng, fc, kind=None):
    """returns (text, category) for a corrupted JSON game"""
    obj = json.loads(fc.text)
    kind = kind or rng.choice(JSON_KINDS)
    kind_all_negative = kind == "prob-all-negative"
    if kind_all_negative:
        kind = "prob"

    def nodes(o, acc):
        acc.append(o)
        if "chance" in o:
            for v in o["chance"]["outcomes"].values():
                nodes(v["state"], acc)
        elif "player" in o:
            for v in o["player"]["actions"].values():
                nodes(v, acc)
        return acc
    ns = nodes(obj, [])
    ch = [n for n in ns if "chance" in n]
    pl = [n for n in ns if "player" in n]
    tm = [n for n in ns if "terminal" in n]
    if kind == "truncate":
        t = fc.text[:rng.randrange(1, max(2, len(fc.text) - 1))]
        try:
            json.loads(t)
            return None
        except Exception:
            return t, "json"
    if kind == "garbage":
        return fc.text + rng.choice([" x", "}", " {}"]), "json"
    if kind == "drop":
        if pl and rng.random() < 0.5:
            n = rng.choice(pl)
            del n["player"][rng.choice(["player_one", "infoset", "actions"])]
        elif ch:
            n = rng.choice(ch)
            if rng.random() < 0.5:
                del n["chance"]["outcomes"]
            else:
                v = rng.choice(list(n["chance"]["outcomes"].values()))
                del v[rng.choice(["prob", "state"])]
        else:
            return None
        return json.dumps(obj), "json"
    if kind == "rename":
        n = rng.choice(ns)
        k = list(n)[0]
        n[rng.choice(["Terminal", "chanse", "players", "node"])] = n.pop(k)
        return json.dumps(obj), "json"
    if kind == "type":
        if tm and rng.random() < 0.5:
            rng.choice(tm)["terminal"] = rng.choice(["1.0", None, [1], {"x": 1}])
        elif pl:
            rng.choice(pl)["player"]["player_one"] = rng.choice([1, "true", None])
        else:
            return None
        return json.dumps(obj), "json"
    if kind == "prob":
        if not ch:
            return None
        node = rng.choice(ch)
        if kind_all_negative:
            # every weight of the node negative: the normalised values would be positive again
            multi = [n for n in ch if len(n["chance"]["outcomes"]) >= 2]
            if not multi:
                return None
            node = rng.choice(multi)
            for v in node["chance"]["outcomes"].values():
                v["prob"] = -abs(v["prob"])
            return json.dumps(obj), "game"
        v = rng.choice(list(node["chance"]["outcomes"].values()))
        v["prob"] = rng.choice([0.0, -0.5, -0.0])
        return json.dumps(obj), "game"
    if kind == "empty":
        if ch and rng.random() < 0.5:
            rng.choice(ch)["chance"]["outcomes"] = {}
        elif pl:
            rng.choice(pl)["player"]["actions"] = {}
        else:
            return None
        return json.dumps(obj), "game"
    if kind == "payoff":
        if not tm:
            return None
        rng.choice(tm)["terminal"] = "@@BIG@@"
        # 1e999 is not a JSON number serde accepts as finite: serde_json parses it as +inf? it errors ("number out of range")
        return json.dumps(obj).replace('"@@BIG@@"', rng.choice(["1e999", "-1e999"])), "json-or-game"
    if kind == "actions":
        # two nodes of one infoset with different action sets
        multi = [n for n in pl if len(n["player"]["actions"]) >= 2]
        if not multi:
            return None
        n = rng.choice(multi)
        twin = json.loads(json.dumps(n))
        acts = twin["player"]["actions"]
        if rng.random() < 0.5:
            # one list is a strict prefix of the other (in the order of the names)
            acts["zzz_extra"] = {"terminal": 1.0}
        else:
            k = sorted(acts)[0]
            acts["zz_other"] = acts.pop(k)
        new = {"chance": {"outcomes": {"o0": {"prob": 1.0, "state": json.loads(json.dumps(n))}, "o1": {"prob": 1.0, "state": twin}}}}
        n.clear()
        n.update(new)
        return json.dumps(obj), "game"
    if kind in ("singles", "single-multi"):
        # one infoset with a single action "a" at one node and a different single action / several actions at another
        n = rng.choice(ns)
        first = json.loads(json.dumps(n))
        pl1 = rng.choice([True, False])
        one = {"player": {"player_one": pl1, "infoset": "lonely", "actions": {"a": first}}}
        if kind == "singles":
            other = {"player": {"player_one": pl1, "infoset": "lonely", "actions": {"b": {"terminal": 1.0}}}}
        else:
            other = {"player": {"player_one": pl1, "infoset": "lonely", "actions": {"a": {"terminal": 1.0}, "c": {"terminal": 2.0}}}}
        pair = [one, other]
        rng.shuffle(pair)
        new = {"chance": {"outcomes": {"o0": {"prob": 1.0, "state": pair[0]}, "o1": {"prob": 2.0, "state": pair[1]}}}}
        n.clear()
        n.update(new)
        return json.dumps(obj), "game"
    if kind == "forgot":
        # a player reaches one infoset after two different actions of an earlier infoset of theirs (forgets the action)
        n = rng.choice(ns)
        keep = json.loads(json.dumps(n))
        pl1 = rng.choice([True, False])

        def y(a, b):
            return {"player": {"player_one": pl1, "infoset": "forgetful_y", "actions": {"u": {"terminal": a}, "v": {"terminal": b}}}}
        new = {"player": {"player_one": pl1, "infoset": "forgetful_x", "actions": {"a": y(0.0, 2.0), "b": y(2.0, 0.0), "c": keep}}}
        n.clear()
        n.update(new)
        return json.dumps(obj), "game"
    if kind == "chance-fine":
        # the same chance infoset with probabilities that differ by a hair (far above rounding, far below a percent)
        c2 = [n for n in ch if len(n["chance"]["outcomes"]) >= 2]
        if not c2:
            return None
        n = rng.choice(c2)
        twin = json.loads(json.dumps(n))
        n["chance"]["infoset"] = "shared_fine"
        twin["chance"]["infoset"] = "shared_fine"
        v = twin["chance"]["outcomes"][sorted(twin["chance"]["outcomes"])[0]]
        v["prob"] = v["prob"] * (1.0 + rng.choice([1e-10, 3e-12, 1e-10, 1e-7]))
        new = {"player": {"player_one": True, "infoset": "fresh_root_fine", "actions": {"l": json.loads(json.dumps(n)), "r": twin}}}
        n.clear()
        n.update(new)
        return json.dumps(obj), "game"
    if kind == "recall":
        # a player moves twice in one infoset along a path (absent-mindedness)
        multi = [n for n in pl if len(n["player"]["actions"]) >= 2]
        if not multi:
            return None
        n = rng.choice(multi)
        inner = json.loads(json.dumps(n))
        k = sorted(n["player"]["actions"])[0]
        n["player"]["actions"][k] = inner
        return json.dumps(obj), "game"
    if kind == "chance":
        # the same chance infoset with different probabilities
        c2 = [n for n in ch if len(n["chance"]["outcomes"]) >= 2]
        if not c2:
            return None
        n = rng.choice(c2)
        twin = json.loads(json.dumps(n))
        n["chance"]["infoset"] = "shared"
        twin["chance"]["infoset"] = "shared"
        v = twin["chance"]["outcomes"][sorted(twin["chance"]["outcomes"])[0]]
        v["prob"] = v["prob"] * 3.0
        new = {"player": {"player_one": True, "infoset": "fresh_root", "actions": {"l": json.loads(json.dumps(n)), "r": twin}}}
        n.clear()
        n.update(new)
        return json.dumps(obj), "game"
    return None


def _restore_cited(g, table):
    """after a terminal was replaced, an outcome that other nodes cite by number may have lost its only definition:
    write the payoffs at the first citing node again (otherwise the *parser* rejects the file, which is not the
    defect under test)"""
    defined = set(cli.fg_outcomes(g))

    def go(n):
        if n[0] == "t":
            return n
        oid, p = n[-2], n[-1]
        if oid != 0 and p is None and oid not in defined:
            p = table[oid]
            defined.add(oid)
        if n[0] == "c":
            return ("c", n[1], [(a, pr, go(c)) for a, pr, c in n[2]], oid, p)
        return ("p", n[1], n[2], n[3], [(a, go(c)) for a, c in n[4]], oid, p)
    return go(g)


def gambit_variants(rng, cid):
    """(text, category or None for accepted) built around one generated Gambit game"""
    fc = cc.gen_file_case(cid, rng, fmt="gambit")
    fg = fc.fg
    kind = rng.choice(["truncate", "header", "probs", "players1", "players3", "sum-out", "sum-in", "sum-out", "sum-in", "sum-out",
                       "sum-in", "huge", "numclash", "dupname", "dupname", "dupname", "sharedname", "contract", "badtoken", "flat-one"])
    if kind == "truncate":
        t = fc.text[:rng.randrange(5, max(6, len(fc.text) - 2))].rstrip()
        return fc, t, "gambit", kind
    if kind == "header":
        return fc, fc.text.replace("EFG 2 R", rng.choice(["EFG 1 R", "EFG 2 D", "NFG 1 R", "efg 2 r"]), 1), "gambit", kind
    if kind == "badtoken":
        return fc, fc.text.replace("{", "[", 1), "gambit", kind
    if kind in ("players1", "players3"):
        # a one-terminal game with 1 or 3 players (payoff lists of that length)
        k = 1 if kind == "players1" else 3
        text = 'EFG 2 R "g" { %s }\nt "" 1 { %s }\n' % (" ".join('"p%d"' % i for i in range(k)), " ".join("1" for _ in range(k)))
        return fc, text, "players", kind

    def first_chance(n):
        if n[0] == "c":
            return n
        if n[0] == "t":
            return None
        for e in n[4]:
            r = first_chance(e[-1])
            if r:
                return r
        return None

    def terminals(n, acc):
        if n[0] == "t":
            acc.append(n)
        else:
            for e in (n[2] if n[0] == "c" else n[4]):
                terminals(e[-1], acc)
        return acc
    terms = terminals(fg, [])
    if kind == "probs":
        text = cli.efg_text(fg, rng=rng)
        m = re.search(r'c "" \d+ "" \{ "o000" (\S+)', text)
        if not m:
            return None
        bad = str(Fraction(m.group(1)) + Fraction(1, 7))
        return fc, text[:m.start(1)] + bad + text[m.end(1):], "gambit", kind
    if kind in ("sum-out", "sum-in", "huge"):
        if len(terms) < 2:
            return None
        own, _ = cli.fg_to_own_tree(fg)
        ones = []

        def col(n):
            if "tq" in n:
                ones.append(n["tq"][0])
            elif "o" in n:
                for _, c in n["o"]:
                    col(c)
            else:
                for _, c in n["a"]:
                    col(c)
        col(own)
        spread = max(ones) - min(ones)
        if kind == "huge":
            delta = None
        else:
            if spread == 0:
                return None
            # rule: (max - min of (one+two)/2) * 1000 > (max - min of one)  =>  reject
            # perturb player two's payoff at one terminal by d: the half-sum moves by d/2
            lim = spread * 2 / 1000
            delta = lim * (Fraction(3, 2) if kind == "sum-out" else Fraction(1, 2))
        tgt = rng.choice(terms)
        # rebuild with a fresh outcome at the target terminal
        newid = max(cli.fg_outcomes(fg)) + 1

        def rebuild(n):
            if n is tgt:
                p = n[2]
                if delta is None:
                    return ("t", newid, (Fraction(10) ** 400, -Fraction(10) ** 400))
                return ("t", newid, (p[0], p[1] + delta))
            if n[0] == "t":
                return n
            if n[0] == "c":
                return ("c", n[1], [(a, pr, rebuild(c)) for a, pr, c in n[2]], n[3], n[4])
            return ("p", n[1], n[2], n[3], [(a, rebuild(c)) for a, c in n[4]], n[5], n[6])
        fc.fg_variant = _restore_cited(rebuild(fg), cli.fg_outcomes(fg))
        text = cli.efg_text(fc.fg_variant, rng=rng)
        return fc, text, {"sum-out": "constant-sum", "sum-in": None, "huge": "non-finite"}[kind], kind
    if kind in ("numclash", "dupname", "sharedname", "contract", "flat-one"):
        # hand-made small games (as parsed-file structures, so that the Coq model of the reader sees them too)
        F = Fraction

        def T(oid, a, b):
            return ("t", oid, (F(a), F(b)))
        if kind == "numclash":
            # infoset 2 of player 1 is unnamed; infoset 1 of player 1 is named "2"
            g = ("p", 1, 1, "2", [("l", ("p", 1, 2, None, [("x", T(1, 1, -1)), ("y", T(2, 0, 0))], 0, None)), ("r", T(3, 2, -2))], 0, None)
            cat = "duplicate"
        elif kind == "dupname":
            pl = rng.choice([1, 2])
            if rng.random() < 0.3:
                g = ("c", 1, [("h", F(1, 2), ("p", pl, 1, "same", [("l", T(1, 1, -1)), ("r", T(2, 0, 0))], 0, None)),
                              ("t", F(1, 2), ("p", pl, 2, "same", [("l", T(3, 2, -2)), ("r", T(2, 0, 0))], 0, None))], 0, None)
            else:
                # three infosets of one player; the two that share the name are not neighbours in number order
                n1 = rng.choice([1, 3, 10])
                n2 = n1 + rng.choice([1, 5, 10])
                n3 = n2 + rng.choice([1, 7, 10])
                mid_name = rng.choice(["other", "other", None])
                g = ("c", 1, [("h", F(1, 3), ("p", pl, n1, "same", [("l", T(1, 1, -1)), ("r", T(2, 0, 0))], 0, None)),
                              ("m", F(1, 3), ("p", pl, n2, mid_name, [("l", T(4, 5, -5)), ("r", T(2, 0, 0))], 0, None)),
                              ("t", F(1, 3), ("p", pl, n3, "same", [("l", T(3, 2, -2)), ("r", T(2, 0, 0))], 0, None))], 0, None)
            cat = "duplicate"
        elif kind == "flat-one":
            # player one receives the same amount at every terminal, player two does not: the pair sums differ although
            # player one's payoffs have no spread at all - not constant-sum (or, with equal sums, a valid constant game)
            a = rng.choice([0, 2, -3])
            bs = rng.choice([(1, 4, 7), (0, 0, 5), (-2, 3, 3), (5, 5, 5)])
            g = ("p", 1, 1, "i", [("l", ("p", 2, 1, "j", [("x", T(1, a, bs[0])), ("y", T(2, a, bs[1]))], 0, None)), ("r", T(3, a, bs[2]))], 0, None)
            cat = None if len(set(bs)) == 1 else "constant-sum"
        elif kind == "sharedname":
            # both players use the name "same": separate namespaces, must be accepted
            g = ("p", 1, 1, "same", [("l", ("p", 2, 1, "same", [("x", T(1, 1, -1)), ("y", T(2, 0, 0))], 0, None)), ("r", T(3, 2, -2))], 0, None)
            cat = None
        else:
            # contract: the same infoset twice along one path
            g = ("p", 1, 1, "i", [("l", ("p", 1, 1, "i", [("l", T(1, 1, -1)), ("r", T(2, 0, 0))], 0, None)), ("r", T(3, 2, -2))], 0, None)
            cat = "game"
        fc.fg_variant = g
        return fc, cli.efg_text(g, rng=rng), cat, kind
    return None


def run(out, rng, tier, args):
    n = args.n or (N_THOROUGH if tier == "thorough" else N_QUICK)
    cid = 0
    done = 0
    model_jobs = []      # (cid, coq expression, expected category, what the binary did)
    json_turn = rng.randrange(len(JSON_KINDS))
    while done < n:
        cid += 1
        if rng.random() < 0.5:
            fc = cc.gen_file_case(cid, rng, fmt="json")
            # every kind of corruption gets its turn (a random choice leaves some kinds out of a short run)
            want = JSON_KINDS[json_turn % len(JSON_KINDS)]
            r = None
            for _ in range(6):
                r = corrupt_json(rng, fc, want)
                if r is not None:
                    break
                fc = cc.gen_file_case(cid, rng, fmt="json")
            json_turn += 1
            if r is None:
                continue
            text, cat = r
            kind = "json-corruption"
            fmt = "json"
        else:
            r = gambit_variants(rng, cid)
            if r is None:
                continue
            fc, text, cat, kind = r
            fmt = "gambit"
        done += 1
        # how the file is read
        how = rng.choice(["explicit", "auto-ext", "auto-stdin", "wrong-format"])
        a = ["-m", rng.choice(["full", "external", "sampled"]), "-t", "5"]
        kw = {}
        expect = cat
        if how == "explicit":
            a += ["--input-format", fmt]
            kw = dict(path_text=text, ext=".dat") if rng.random() < 0.5 else dict(text=text)
        elif how == "auto-ext":
            kw = dict(path_text=text, ext={"json": ".json", "gambit": ".efg"}[fmt])
        elif how == "auto-stdin":
            kw = dict(text=text)
            if cat in ("json", "gambit"):
                expect = "auto"          # neither parser accepts it
        else:
            other = "gambit" if fmt == "json" else "json"
            a += ["--input-format", other]
            # also under the content's own extension: the explicit flag decides, not the file name
            kw = dict(path_text=text, ext=rng.choice([".dat", {"json": ".json", "gambit": ".efg"}[fmt]]))
            expect = other               # a syntactically foreign file (valid or not in its own format)
        to_file = rng.random() < 0.3
        res = cli.run_cli(a, out_file=to_file, name="c17_%d" % cid, **kw)
        out.evaluations += 1
        out.count("kind_" + kind)
        out.count("read_" + how)
        replay = {"file": text, "format": fmt, "options": a, "route": "file" if "path_text" in kw else "stdin", "kind": kind,
                  "expected_category": expect, "result": {k: res[k] for k in ("exit", "stderr", "cmd")}, "stdout": res["stdout"][:2000]}
        if fmt == "gambit" and getattr(fc, "fg_variant", None) is not None and how != "wrong-format":
            expr, _ = cli.coq_gambit_tree_expr(fc.fg_variant)
            model_jobs.append((cid, expr, cat, res["exit"], res["stderr"], replay))
        if expect is None:
            out.count("accepted_controls")
            if res["exit"] != 0:
                out.monitor_hits.append((cid, "a valid file (%s) was rejected: %s" % (kind, res["stderr"][-300:]), replay, "rejects-valid"))
            continue
        out.add_nontrivial({"text": text, "opts": a})
        if len(out.samples) < 4:
            out.samples.append({"kind": kind, "read": how, "file": text[:600], "expected_category": expect, "exit": res["exit"],
                                "stderr": res["stderr"][:300]})
        if res["exit"] == 0:
            out.monitor_hits.append((cid, "input with a %s defect (%s, read %s) was solved: exit 0, stdout %s" % (expect, kind, how, res["stdout"][:200]),
                                     replay, "accepts-invalid"))
            continue
        if res["stdout"].strip() or (to_file and res["outfile"]):
            out.monitor_hits.append((cid, "a result was printed although the input was rejected (%s)" % kind, replay, "prints-result"))
        if res["exit"] == "timeout":
            out.monitor_hits.append((cid, "the binary hung on malformed input (%s)" % kind, replay, "hang"))
            continue
        if expect == "json-or-game":
            ok = ANCHOR["json"] in res["stderr"] or ANCHOR["game"] in res["stderr"] or (how == "auto-stdin" and ANCHOR["auto"] in res["stderr"])
        elif how == "auto-stdin" and expect not in ("auto",):
            # under auto-detection a semantic defect is reported by the reader that parsed the text;
            # a JSON game error surfaces as a panic inside the JSON reader
            ok = ANCHOR[expect] in res["stderr"]
        else:
            ok = ANCHOR[expect] in res["stderr"]
        if not ok:
            out.monitor_hits.append((cid, "rejected, but the diagnostic does not name the documented category %r (%s, read %s): %s"
                                     % (ANCHOR.get(expect, expect), kind, how, res["stderr"][:300]), replay, "diagnostic"))
    model_categories(out, model_jobs)


def _after_run_marker():
    pass


def model_categories(out, jobs):
    """the Coq model of the Gambit reader (Cli.gambit_tree + from_root) on the same parsed files: its category
    must be the generator's and the binary's"""
    from .. import coqrun
    from ..coqrun import coq_N
    if not jobs:
        return
    bodies = ["Eval vm_compute in (%s, o_loaded %s)." % (coq_N(cid), expr) for cid, expr, _, _, _, _ in jobs]
    res = coqrun.run_shards("C17_model", bodies)
    code_cat = {100: "duplicate", 101: "non-finite", 102: "constant-sum"}
    for cid, expr, cat, exit_, stderr, replay in jobs:
        m = res.get(cid)
        if m is None:
            out.corr_breaks.append((cid, "the Coq model of the Gambit reader produced no result", replay))
            continue
        if m["tag"] == 0:
            mcat = None
        else:
            code = m["args"][0]
            mcat = code_cat.get(code, "game")
        out.count("model_category_%s" % (mcat or "accepted"))
        if mcat != cat:
            out.corr_breaks.append((cid, "Coq model of the Gambit reader says %r, the generator expects %r" % (mcat, cat), replay))
        bin_rejects = exit_ != 0
        if (mcat is not None) != bin_rejects or (mcat is not None and ANCHOR[mcat] not in stderr):
            out.corr_breaks.append((cid, "Coq model of the Gambit reader says %r but the binary exits %r with %s"
                                    % (mcat, exit_, stderr[:160]), replay))


def replay(path, out):
    data = json.load(open(path))["data"]
    kw = dict(path_text=data["file"], ext=".dat") if data["route"] == "file" else dict(text=data["file"])
    res = cli.run_cli(data["options"], name="c17_replay", **kw)
    print(json.dumps({"then": data.get("result"), "now": res}, indent=1)[:6000])
    return 0
