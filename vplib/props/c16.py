"""C16 - CLI options and input formats mean what the help text says."""
import json

from ..common import b2f, f2b
from ..gen import gen_tree
from .. import cli, clicases as cc

N_QUICK = 60
N_THOROUGH = 1500
RULE = ("each of -d, -t, -r, -c (and -p in the thread comparison) is left off the command line in a fifth of the runs and must then mean the documented default; generated games x the option space: -m full x -d {5 presets} x -t {1,2,7,30,100, 0 with -r>0} x -r x -p {0,1,2,5} x "
        "-c {0,1e-3,0.05,0.3,0.6,1.5} x --input-format {auto,json,gambit} x file/stdin x stdout/-o x extensions "
        "{.json,.efg,.txt,none}.  Per game: (a) the printed object equals the library's result for the mapped parameters "
        "(harness: solve/truncate/get_info/as_named with the same method, preset, budget, threshold) and the Coq model's; (b) the "
        "same input through every route (file by extension, file with explicit format, stdin auto, stdin explicit, -o) prints the "
        "same object (bit-identical text with -p 1); (c) -p k prints the same solution as -p 1 (1e-7); (d) a JSON and a Gambit "
        "encoding of the same zero-sum game give the same solution; (e) with -c the pruned profile is printed iff its regret is "
        "strictly lower (judged only when the two regrets differ by more than rounding) and what is printed is a valid profile; "
        "(f) different presets / budgets really select different library behaviour (the outputs for two presets are compared with "
        "the library run of *that* preset only); non-trivial = both players have a multi-action infoset; distinct by file+options")
ASSUMPTIONS = ["clap / file I/O are not modelled; the sampled methods are random, so only their exit status and output shape are "
               "looked at here (their semantics are C04/C07/C10)"]


def dyadic_tree(rng):
    """a game whose weights and payoffs are short dyadic numbers: both encodings are exact"""
    t, st = gen_tree(rng, max_nodes=rng.choice([8, 20, 40]), max_depth=rng.choice([3, 5]), label_space=50,
                     p_share=0.6, single_rate=0.1, max_actions=rng.choice([2, 3]), int_payoffs=True)

    def fix(n):
        if "t" in n:
            return n
        if "o" in n:
            k = len(n["o"])
            # weights i/8 summing to one exactly
            parts = [1] * k
            for _ in range(8 - k):
                parts[rng.randrange(k)] += 1
            return {"c": None, "o": [[f2b(p / 8.0), fix(c)] for p, (_, c) in zip(parts, n["o"])]}
        return {"p": n["p"], "i": n["i"], "a": [[a, fix(c)] for a, c in n["a"]]}
    return fix(t), st


def tie_tree(rng):
    """a game with a payoff-irrelevant infoset: clipping its lopsided (tie-broken) strategy changes the profile but not
    the regret - an exact tie, on which the unpruned profile must be printed"""
    from ..gen import tree_stats
    s = rng.choice([1.0, 2.0, 0.5])
    v = float(rng.randint(-3, 3))

    def T(x):
        return {"t": f2b(x)}
    mp = {"p": 1, "i": 11, "a": [[1, {"p": 2, "i": 12, "a": [[1, T(s)], [2, T(-s)]]}],
                                 [2, {"p": 2, "i": 12, "a": [[1, T(-s)], [2, T(s)]]}]]}
    k = rng.choice([3, 4])
    free = {"p": rng.choice([1, 2]), "i": 13, "a": [[a, T(v)] for a in range(1, k + 1)]}
    t = {"c": None, "o": [[f2b(1.0), mp], [f2b(1.0), free]]}
    return t, tree_stats(t)


def run(out, rng, tier, args):
    n = args.n or (N_THOROUGH if tier == "thorough" else N_QUICK)
    games = []
    for cid in range(n):
        if rng.random() < 0.15:
            t, st = tie_tree(rng)
            fc = cc.json_case(cid, rng, t, st) if rng.random() < 0.5 else cc.gambit_case(cid, rng, t, st, interior=False)
            fc.twin = None
            o = cc.random_options(rng, full=True)
            o.update({"par": 1, "preset": rng.choice(["lcfr", "cfr_plus", "dcfr", "dcfr_prune"]), "T": rng.choice([5, 10, 20]),
                      "r": 0.0, "clip": rng.choice([0.2, 0.25, 0.3])})
            fc.opts = o
            fc.tie = True
            games.append(fc)
            continue
        if rng.random() < 0.35:
            t, st = dyadic_tree(rng)
            fj = cc.json_case(cid, rng, t, st)
            fg = cc.gambit_case(cid, rng, t, st, c=0, interior=False, unnamed_rate=0.0)
            fc = rng.choice([fj, fg])
            fc.twin = fg if fc is fj else fj
        else:
            fc = cc.gen_file_case(cid, rng)
            fc.twin = None
        o = cc.random_options(rng, full=True)
        o["par"] = 1
        if rng.random() < 0.2:
            o["T"], o["r"] = 0, rng.choice([0.5, 2.0, 5.0])     # -t 0 means "no limit": needs a positive threshold
            cc.omit_some(rng, o, flags=("-d", "-c"))
        else:
            cc.omit_some(rng, o)
        fc.opts = o
        games.append(fc)
    lib_cases = [(fc, fc.opts, (2 ** 64 - 1) if fc.opts["T"] == 0 else None) for fc in games]
    iv, mv, raw = cc.library_and_model("C16", lib_cases)
    for fc in games:
        o = fc.opts
        out.evaluations += 1
        a = cc.option_args(o)
        ext = {"json": ".json", "gambit": ".efg"}[fc.fmt]
        base = cli.run_cli(a, path_text=fc.text, ext=ext, name="c16_%d" % fc.cid)
        replay = {"file": fc.text, "format": fc.fmt, "options": a, "route": "file", "result": {k: base[k] for k in ("exit", "stderr", "cmd")},
                  "stdout": base["stdout"][:4000]}
        out.count("format_" + fc.fmt)
        if getattr(fc, "tie", False):
            out.count("exact_tie_family")
        out.count("preset_" + o["preset"])
        for fl in sorted(o.get("omit", ())):
            out.count("option_omitted_" + fl)
        out.count("clip_%g" % o["clip"])
        if base["exit"] != 0:
            out.monitor_hits.append((fc.cid, "exit %r on a valid file: %s" % (base["exit"], base["stderr"][-300:]), replay, "exit"))
            continue
        printed, err = cli.parse_output(base["stdout"])
        if printed is None:
            out.monitor_hits.append((fc.cid, err, replay, "json"))
            continue
        # (a) library and model, (e) clip choice
        for side, views in (("library", iv), ("model", mv)):
            if side == "model" and o["T"] >= 1000:
                # the default budget (option omitted): rounding is amplified over 1000 iterations; the binary is compared
                # with the library (same code, exact) only
                out.count("default_budget_runs_compared_with_the_library_only")
                continue
            v = views.get(fc.cid)
            wants = (cc.expected_candidates(v, fc, exact=(o["par"] == 1)) if side == "library" else cc.model_candidates(v, fc)) if v else None
            if wants is None:
                out.corr_breaks.append((fc.cid, "%s produced no result" % side, replay))
                continue
            ds = [cc.compare_output(printed, w, 1e-9 if side == "library" else 1e-7) for w in wants]
            if all(d is not None for d in ds):
                text = "%s: printed object differs from the %s's result for method=full preset=%s iters=%s max_regret=%r clip=%r: %s" % (
                    " ".join(a), side, o["preset"], o["T"] or "u64::MAX", o["r"], o["clip"], ds[0])
                if side == "library":
                    out.monitor_hits.append((fc.cid, text, dict(replay, want=wants[0]), "library"))
                else:
                    out.corr_breaks.append((fc.cid, text, dict(replay, want=wants[0])))
            else:
                out.count("agree_with_" + side)
                if side == "library" and len(wants) == 1:
                    out.count("clip_choice_pruned" if wants[0]["pruned"] else "clip_choice_unpruned")
        for text_, kind in cc.judge_printed(fc, printed):
            out.monitor_hits.append((fc.cid, "%s: %s" % (" ".join(a), text_), replay, kind))
        # (b) routes
        routes = [("stdin-auto", dict(text=fc.text), []),
                  ("stdin-explicit", dict(text=fc.text), ["--input-format", fc.fmt]),
                  ("file-explicit-odd-extension", dict(path_text=fc.text, ext=rng.choice([".txt", "", ".dat"])), ["--input-format", fc.fmt]),
                  ("file-auto-odd-extension", dict(path_text=fc.text, ext=rng.choice([".txt", ""])), []),
                  ("output-file", dict(path_text=fc.text, ext=ext, out_file=True), []),
                  ("output-file-already-exists", dict(path_text=fc.text, ext=ext, out_file=True,
                                                      prefill=base["stdout"] + " " * 50 + base["stdout"] * 3), []),
                  ("file-explicit-misleading-extension",
                   dict(path_text=fc.text, ext={"json": ".efg", "gambit": ".json"}[fc.fmt]), ["--input-format", fc.fmt])]
        for nm, kw, extra in rng.sample(routes, 3 if tier != "thorough" else 7):
            r = cli.run_cli(a + extra, name="c16_%d" % fc.cid, **kw)
            got = r["outfile"] if kw.get("out_file") else r["stdout"]
            out.count("route_" + nm)
            # the strategies are serialised from a HashMap: the key order differs from run to run, so the
            # *objects* are compared (exactly: one thread, same input), not the text
            try:
                same = r["exit"] == 0 and json.loads(got or "") == json.loads(base["stdout"])
            except Exception:
                same = False
            if not same:
                out.monitor_hits.append((fc.cid, "route %s (%s) gives exit %r and a different output than reading the file by extension"
                                         % (nm, r["cmd"], r["exit"]), dict(replay, other=r), "route"))
        # (c) thread count
        # (over the default budget of 1000 iterations the summation order of the workers is amplified: not compared)
        if o["T"] < 1000:
            k = rng.choice([0, 2, 5, None])
            a2 = list(a)
            if k is None:
                # -p left off: the default (0 = available parallelism)
                i_ = a2.index("-p")
                del a2[i_:i_ + 2]
                k = 0
                out.count("parallel_option_omitted")
            else:
                a2[a2.index("-p") + 1] = str(k)
            r = cli.run_cli(a2, path_text=fc.text, ext=ext, name="c16_%d" % fc.cid)
            p2, _ = cli.parse_output(r["stdout"]) if r["exit"] == 0 else (None, None)
            out.count("threads_%d" % k)
            if p2 is None:
                out.monitor_hits.append((fc.cid, "-p %d: exit %r" % (k, r["exit"]), dict(replay, other=r), "threads"))
            else:
                v = iv.get(fc.cid)
                wants = cc.expected_candidates(v, fc) if v else None
                if wants and all(cc.compare_output(p2, w, 1e-7) is not None for w in wants):
                    out.monitor_hits.append((fc.cid, "-m full -p %d prints a different solution than the library with one thread: %s"
                                             % (k, cc.compare_output(p2, wants[0], 1e-7)), dict(replay, other=r), "threads"))
        # (d) the other encoding of the same game
        if fc.twin is not None:
            tw = fc.twin
            r = cli.run_cli(a, path_text=tw.text, ext={"json": ".json", "gambit": ".efg"}[tw.fmt], name="c16_%d" % fc.cid)
            p3, _ = cli.parse_output(r["stdout"]) if r["exit"] == 0 else (None, None)
            out.count("twin_encodings")
            if p3 is None:
                out.monitor_hits.append((fc.cid, "the %s encoding of the same game: exit %r %s" % (tw.fmt, r["exit"], r["stderr"][-200:]),
                                         dict(replay, twin=tw.text), "twin"))
            else:
                d = cc.compare_output(p3, dict(printed), 1e-7)
                if d:
                    out.monitor_hits.append((fc.cid, "JSON and Gambit encodings of one game give different solutions: " + d,
                                             dict(replay, twin=tw.text, twin_stdout=r["stdout"][:3000]), "twin"))
        multi, _ = cc.infosets_of(fc.crate_tree)
        if multi[1] and multi[2]:
            out.add_nontrivial({"text": fc.text, "opts": a})
        if len(out.samples) < 3:
            out.samples.append({"file": fc.text[:1200], "format": fc.fmt, "options": a, "stdout": base["stdout"][:600]})


def replay(path, out):
    data = json.load(open(path))["data"]
    res = cli.run_cli(data["options"], path_text=data["file"], ext=".json" if data["format"] == "json" else ".efg", name="c16_replay")
    print(json.dumps({"then": data.get("result"), "now": res}, indent=1)[:6000])
    return 0
