"""C06 - the unsampled solver gives the same answer for every thread count."""
import math
import os

from ..common import b2f, f2b
from ..gen import gen_tree, infosets_of
from ..ops import CaseBuilder
from ..solvers import rand_params, draws_for, level_tree, alternating_tree, hidden_deal_tree, tiny_unit, INF

METHODS = ["full"]
PID = "C06"
EXPLAINED = []          # thread differences explained by rounding sensitivity of the algorithm itself (evidence)
NOT_EXPLAINED = [0]
SCOPE = {"solve", "named"}
REL = 1e-8
N_QUICK = 150
N_THOROUGH = 4000
HARNESS_JOBS = 2
RULE = ("random perfect-recall trees and frontier-adversarial trees (BFS levels of exactly 3k-1, 3k, 3k+1 nodes for k "
        "threads; 15 % in a far-out payoff unit 2^-200..2^150) x parameter sets x budgets {0,1,2,3,4,10} x thresholds x thread counts {2,3,4,8,16,64}: each configuration is "
        "solved with one thread and with k threads (repeated with different seeded yield-point perturbations) and both are "
        "compared with each other (monitor, 1e-9 relative) and with the model; a quarter of the Full cases also issue the solve from "
        "two user threads at the same time on one Game and compare both results with the lone run; non-trivial = budget >= 2 on a tree with >= 7 "
        "nodes (the frontier really splits and the workspace is reused across iterations); distinct by (tree, config) hash")
ASSUMPTIONS = ["atomic fetch_add/fetch_sub, Mutex and rayon's scope/par_drain/par_extend are trusted to behave as documented; "
               "the theorem covers all interleavings of atomic increments"]


def config(rng, t, st, methods):
    method = rng.choice(methods)
    params = rand_params(rng)
    if method != "external" and rng.random() < 0.15:
        # "immediate forgetting" of positive regret: the discount factor is exactly zero, so the order of
        # regret matching and discounting in the per-infoset update becomes visible
        params = [-INF, rng.choice([-INF, 0.0, 1.0, INF]), rng.choice([0.0, 1.0, 2.0]), rng.choice([INF, 0.0, -0.5, 1.0])]
    if rng.random() < 0.1:
        # regrets not discounted at all (+inf, +inf) but the average weighted by t^g: only the averaging step is left
        params = [INF, INF, rng.choice([0.5, 1.0, 2.0, 3.0]), rng.choice([0.0, INF, 1.0])]
    T = rng.choice([0, 1, 2, 2, 3, 3, 4, 10])
    if rng.random() < 0.1:
        # a large (legal, finite) averaging exponent: t^g itself leaves the binary64 range after a few iterations, the
        # documented discount (t/(t+1))^g of the accumulated strategy never does
        base = params if isinstance(params, list) else [rng.choice([1.5, INF, 1.0]), rng.choice([0.0, -INF, 0.5]), 2.0, rng.choice([INF, 0.0])]
        params = [base[0], base[1], rng.choice([200.0, 700.0, 64.0]), base[3]]
        T = rng.choice([4, 10, 40])
    r = rng.choice([0.0, 0.0, 0.0, -1.0, 1e-2, 0.5, 5.0])
    if rng.random() < 0.06:
        # "no limit" (u64::MAX) ended by a threshold the first iteration already meets: one iteration, every thread count
        T = 2 ** 64 - 1
        r = float("inf")      # met by every finite bound, whatever the payoff unit
    draws = draws_for(rng, t, st) if method != "full" else None
    return method, params, T, r, draws


def build(cid, t, st, method, params, T, r, draws, ks, reps, rng, record=False):
    cb = CaseBuilder(cid, t, {"stats": st, "method": method, "T": T, "ks": ks, "params": params, "r": r})
    base = cb.solve(method, T, r, 1, params, draws, record=record)
    cb.named(base)
    runs = []
    for k in ks:
        for rep in range(reps):
            s = cb.solve(method, T, r, k, params, draws, yield_seed=(rng.randrange(1, 1 << 30) if rep else 0), record=record)
            cb.named(s)
            runs.append((k, len(cb.ops) - 2))
    cb.meta["runs"] = runs
    cb.meta["pairs"] = []
    if method == "full" and rng.random() < 0.25:
        # the same solve issued from two user threads at once on the one Game value
        k = rng.choice(ks + [1])
        presets = {"vanilla", "lcfr", "cfr_plus", "dcfr", "dcfr_prune", "default"}
        jp = params if (params is None or (isinstance(params, str) and params in presets)) else [f2b(x) for x in params]
        idx = cb.raw("solve_pair", {"op": "solve_pair", "iters": T, "max_reg": f2b(r), "threads": k, "params": jp}, [], "OTag 3 []")
        cb.meta["pairs"].append((k, idx))
    return cb


def generate(rng, tier, n, methods=METHODS):
    cases = []
    cid = 0
    reps = 4 if tier == "thorough" else 2
    # contention: a large game in which every infoset is shared by all subtrees handed to the workers, many
    # iterations, odd thread counts, repeated runs: a lost update on a shared cell shows as a thread-dependent result
    if methods == METHODS:
        for _ in range(2 if tier != "thorough" else 12):
            t, st = hidden_deal_tree(rng, outcomes=rng.choice([8, 12]), depth=4, actions=3)
            cases.append(build(cid, t, st, "full", rng.choice(["vanilla", "dcfr"]), rng.choice([40, 60]), 0.0, None,
                               [5, 7, 12], 4, rng))
            cases[-1].meta["contention"] = True
            cid += 1
    else:
        # the same for the chance-sampled solver: two identical subgames behind a coin (the draw does not matter), hidden
        # moves of one player, then the other player moves blind: her few infosets span every work item of the pass
        from ..solvers import blind_tree
        for _ in range(1 if tier != "thorough" else 6):
            t, st = blind_tree(rng, rng.choice([6, 7]), 3)
            cases.append(build(cid, t, st, "sampled", rng.choice(["vanilla", "dcfr"]), rng.choice([30, 40]), 0.0, draws_for(rng, t, st),
                               [5, 8, 12], 4, rng))
            cases[-1].meta["contention"] = True
            cid += 1
    while len(cases) < n:
        c = rng.random()
        ks = rng.sample([2, 3, 4, 8, 16], 2) + ([64] if rng.random() < 0.1 else [])
        if c < 0.35:
            k = ks[0]
            widths = [rng.choice([2, 3]), rng.choice([3 * k - 1, 3 * k, 3 * k + 1, 4, 7]),
                      rng.choice([3 * k - 1, 3 * k + 1, 6 * k, 9])][:rng.choice([2, 3])]
            if rng.random() < 0.5:
                widths.append(rng.choice([4, 8, 3 * k + 2]))
            t, st = level_tree(rng, widths)
        elif c < 0.75:
            # small levels against a small target: the frontier expansion stops in the middle of a level and
            # leaves a short remainder in the workspace (the shape on which state leaking from one pass or
            # iteration into the next one, D1/D2, shows)
            ks = [2, rng.choice([2, 3, 3, 4])]
            t, st = alternating_tree(rng, rng.choice([4, 5, 6]), first=rng.choice([1, 2]))
        elif c < 0.85:
            # a hidden deal with uneven weights near the root, infosets spanning all deals, odd thread counts
            t, st = hidden_deal_tree(rng, outcomes=rng.choice([3, 4, 6]), depth=rng.choice([2, 3]), actions=rng.choice([2, 3]))
            ks = rng.sample([2, 3, 5], 2)
        else:
            t, st = gen_tree(rng, max_nodes=rng.choice([15, 40, 80]), max_depth=rng.choice([4, 6]),
                             p_share=rng.choice([0.5, 0.8]))
        unit = None
        if rng.random() < 0.15:
            t, unit = tiny_unit(rng, t)
        method, params, T, r, draws = config(rng, t, st, methods)
        cases.append(build(cid, t, st, method, params, T, r, draws, ks, reps, rng, record=(methods != METHODS)))
        if unit is not None:
            cases[-1].meta["unit"] = unit
        cid += 1
    return cases


def _view(named):
    return [{it[1]: {a: b2f(p) for a, p in it[3]} for it in named["ok"][pl]["items"]} for pl in (0, 1)]


def monitor(cb, impl):
    hits = []
    if "ops" not in impl:
        if "executor_failed" in impl:
            hits.append(("the process running the solves died or hung: %r" % impl, "crash"))
        return hits
    ops = impl["ops"]
    m = cb.meta
    for k, o in enumerate(ops):
        if isinstance(o, dict) and "panic" in o:
            hits.append(("solve with %s threads panicked: %s" % (cb.ops[k].get("threads"), o["panic"]), "panic"))
    if hits or "ok" not in ops[0] or "ok" not in ops[1]:
        return hits
    b0 = [b2f(x) for x in ops[0]["ok"]]
    v0 = _view(ops[1])
    for k, idx in m["runs"]:
        s, nm = ops[idx], ops[idx + 1]
        if "ok" not in s or "ok" not in nm:
            if "err" in s and s["err"] == "ThreadSpawnError":
                continue
            hits.append(("solve with %d threads returned %r" % (k, s), "error"))
            continue
        bk = [b2f(x) for x in s["ok"]]
        vk = _view(nm)
        scale = max(1.0, max(abs(x) for x in b0 if math.isfinite(x)) if any(math.isfinite(x) for x in b0) else 1.0)
        diff = None
        for x, y in zip(b0, bk):
            if (math.isinf(x) or math.isinf(y)) and x != y or (math.isfinite(x) and math.isfinite(y) and abs(x - y) > 1e-9 * scale) \
                    or (x != x) != (y != y):
                diff = "bounds %r vs %r" % (b0, bk)
        for pl in (0, 1):
            if set(v0[pl]) != set(vk[pl]):
                diff = diff or "infosets differ"
                continue
            for i in v0[pl]:
                acts = set(v0[pl][i]) | set(vk[pl][i])
                for a in acts:
                    if abs(v0[pl][i].get(a, 0.0) - vk[pl][i].get(a, 0.0)) > 1e-9:
                        diff = diff or "player %d infoset %s action %s: %r vs %r" % (
                            pl + 1, i, a, v0[pl][i].get(a, 0.0), vk[pl][i].get(a, 0.0))
        if diff:
            from .. import core
            explained, why = (False, "")
            if len(EXPLAINED) + NOT_EXPLAINED[0] < 12:       # bounded work: a real defect shows on many cases
                explained, why = core.thread_difference_explained(cb, idx, 1e-9, name="condt_%d" % os.getpid())
            if explained:
                EXPLAINED.append({"case": cb.cid, "threads": k, "why": why})
                continue
            NOT_EXPLAINED[0] += 1
            hits.append(("%s, %d iterations, params %r, threshold %r: %d threads differ from 1 thread: %s%s"
                         % (m["method"], m["T"], m["params"], m["r"], k, diff, ("  [" + why + "]") if why else ""), "thread-dependent"))
        # draws: at most one per (kind, cell, pass)
        evs = s.get("events")
        if evs:
            seen = set()
            for kind, cid_, pas, ws, res, ov in evs:
                key = (kind, cid_, pas)
                if key in seen:
                    hits.append(("%d threads: more than one sample drawn for %s infoset cell %d in pass %d"
                                 % (k, "chance" if kind == 0 else "player", cid_, pas), "double-draw"))
                    break
                seen.add(key)
    for k, idx in m.get("pairs", []):
        o = ops[idx] if idx < len(ops) else {}
        if "ok" not in o:
            if "panic" in o:
                hits.append(("two simultaneous solves: %s" % o["panic"], "panic"))
            continue
        for which, one in enumerate(o["ok"]):
            if "ok" not in one:
                if one.get("err") == "ThreadSpawnError":
                    continue
                hits.append(("one of two simultaneous solves (%d threads each) returned %r" % (k, one), "concurrent-error"))
                continue
            bk = [b2f(x) for x in one["ok"]["bounds"]]
            vk = _view({"ok": one["ok"]["named"]})
            scale = max(1.0, max([abs(x) for x in b0 if math.isfinite(x)] or [1.0]))
            bad = any((math.isinf(x) or math.isinf(y)) and x != y or (math.isfinite(x) and math.isfinite(y) and abs(x - y) > 1e-9 * scale)
                      for x, y in zip(b0, bk))
            for pl in (0, 1):
                for i in v0[pl]:
                    for a in set(v0[pl][i]) | set(vk[pl].get(i, {})):
                        if abs(v0[pl][i].get(a, 0.0) - vk[pl].get(i, {}).get(a, 0.0)) > 1e-9:
                            bad = True
            if bad:
                hits.append(("%s, %d iterations, params %r: a solve (%d threads) issued while another solve of the same game was "
                             "running returned bounds %r, alone it returns %r" % (m["method"], m["T"], m["params"], k, bk, b0),
                             "concurrent-solves"))
    return hits


def nontrivial(cb, impl):
    return cb.meta["T"] >= 2 and cb.meta["stats"]["nodes"] >= 7


def classify(cb, impl):
    m = cb.meta
    return ["method_" + m["method"], "T_%d" % m["T"]] + ["threads_%d" % k for k in m["ks"]] + (["far_out_payoff_unit"] if m.get("unit") else [])
