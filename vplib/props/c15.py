"""C15 - CLI output is faithful to the game in the input file."""
import json
import os

from ..common import b2f
from .. import cli, clicases as cc

N_QUICK = 120
N_THOROUGH = 3000
RULE = ("generated valid game files: JSON DSL (float payoffs/weights, shared chance infosets, single-action and single-outcome "
        "nodes) and Gambit .efg (constant pair sum != 0, payoffs on interior nodes, outcomes shared between nodes, unnamed "
        "infosets printed by number, rational probabilities, unsorted action lists, decimal and fraction literals) x random option "
        "combinations (-m x -d x -t x -r x -p x -c, file/stdin, stdout/-o incl. an output path that already holds a longer older "
        "result; Gambit constants from 1/4000 to 10^6 against payoff spreads of order 1-20): the binary must exit 0 and print one JSON object; "
        "monitor: the printed strategies are parsed and evaluated on the game exactly as written in the file by an independent "
        "Python evaluator (expected own payoffs, grouped best response) and compared with every printed number, p1+p2 = constant, "
        "each infoset of the file once, rows positive summing to 1; for -m full the whole object is additionally compared with the "
        "library (harness) and with the Coq model (from_root/solve/truncate/info/as_named + the Output assembly); "
        "non-trivial = both players have a multi-action infoset; distinct by file text + options")
ASSUMPTIONS = ["text -> AST is serde_json / gambit-parser (dependencies): exercised end to end, not modelled",
               "clap argument parsing and file I/O are not modelled",
               "the Gambit conversion (cumulative payoffs, constant-sum shift, sorting) on the model side is the Python mirror in "
               "vplib/cli.py::fg_to_crate_tree feeding the Coq model of from_root; its Gallina counterpart is theories/Cli.v"]


def run(out, rng, tier, args):
    n = args.n or (N_THOROUGH if tier == "thorough" else N_QUICK)
    cases = []
    for cid in range(n):
        fc = cc.gen_file_case(cid, rng)
        o = cc.random_options(rng)
        # options left off the command line mean the documented defaults (-m external -d dcfr -t 1000 -r 0 -c 0 -p 0);
        # the default budget is only taken where the comparison with the library stays exact (one thread) or is not made
        flags = ["-m", "-d", "-r", "-c"] + (["-t"] if o["method"] != "full" or o["par"] == 1 else []) + (["-p"] if o["T"] <= 100 else [])
        cc.omit_some(rng, o, rate=0.15, flags=flags)
        if o["method"] == "full" and o["T"] >= 1000 and o["par"] != 1:
            o["omit"].discard("-p")
            o["par"] = 1
        fc.opts = o
        fc.route = rng.choice(["file", "stdin"])
        fc.fmt_opt = rng.choice(["auto", "explicit"])
        fc.to_file = rng.random() < 0.3
        cases.append(fc)
    full = [(fc, fc.opts, None) for fc in cases if fc.opts["method"] == "full"]
    iv, mv, raw = cc.library_and_model("C15", full) if full else ({}, {}, {})
    for fc in cases:
        o = fc.opts
        out.evaluations += 1
        a = cc.option_args(o)
        if fc.fmt_opt == "explicit" or fc.route == "stdin" and rng.random() < 0.5:
            a += ["--input-format", fc.fmt]
        ext = {"json": ".json", "gambit": ".efg"}[fc.fmt] if rng.random() < 0.7 else rng.choice([".txt", ""])
        res = cli.run_cli(a, text=fc.text if fc.route == "stdin" else None, path_text=fc.text if fc.route == "file" else None,
                          ext=ext, out_file=fc.to_file, name="c15_%d" % fc.cid,
                          # half of the -o runs write to a path that already holds a longer, older result
                          prefill=('{"regret":0.0,"player_one_strategy":{%s}}' % ",".join('"old%d":{"x":1.0}' % k for k in range(400)))
                          if fc.to_file and fc.cid % 2 == 0 else None)
        replay = {"file": fc.text, "format": fc.fmt, "options": a, "route": fc.route, "result": {k: res[k] for k in ("exit", "stderr", "cmd")},
                  "stdout": res["stdout"][:4000], "outfile": (res["outfile"] or "")[:4000]}
        out.count("format_" + fc.fmt)
        out.count("method_" + o["method"])
        for fl in sorted(o.get("omit", ())):
            out.count("option_omitted_" + fl)
        out.count("route_" + fc.route)
        if res["exit"] != 0:
            out.monitor_hits.append((fc.cid, "the binary exited with %r on a valid %s file: %s" % (res["exit"], fc.fmt, res["stderr"][-300:]),
                                     replay, "exit"))
            continue
        text = res["outfile"] if fc.to_file else res["stdout"]
        if fc.to_file and res["stdout"].strip():
            out.monitor_hits.append((fc.cid, "-o given but something was printed on stdout", replay, "route"))
        printed, err = cli.parse_output(text or "")
        if printed is None:
            out.monitor_hits.append((fc.cid, "output: " + err, replay, "json"))
            continue
        for text_, kind in cc.judge_printed(fc, printed):
            out.monitor_hits.append((fc.cid, "%s file, %s: %s" % (fc.fmt, " ".join(a), text_), replay, kind))
        if o["method"] == "full":
            for side, views in (("library", iv), ("model", mv)):
                v = views.get(fc.cid)
                wants = (cc.expected_candidates(v, fc, exact=(o["par"] == 1)) if side == "library" else cc.model_candidates(v, fc)) if v else None
                if wants is None:
                    out.corr_breaks.append((fc.cid, "%s produced no result for a file the binary solved" % side, replay))
                    continue
                ds = [cc.compare_output(printed, w, 1e-9 if o["par"] == 1 and side == "library" else 1e-7) for w in wants]
                d = None if any(x is None for x in ds) else ds[0]
                want = wants[0]
                if d:
                    if side == "library":
                        out.monitor_hits.append((fc.cid, "-m full output differs from the library's result for the same parameters: " + d,
                                                 dict(replay, want=want), "library"))
                    else:
                        out.corr_breaks.append((fc.cid, "binary vs Coq model (cli pipeline): " + d, dict(replay, want=want)))
                else:
                    out.count("full_outputs_agreeing_with_" + side)
        multi, _ = cc.infosets_of(fc.crate_tree)
        if multi[1] and multi[2]:
            out.add_nontrivial({"text": fc.text, "opts": a})
        if len(out.samples) < 3:
            out.samples.append({"file": fc.text[:1500], "format": fc.fmt, "options": a, "stdout": (text or "")[:800]})


def replay(path, out):
    data = json.load(open(path))["data"]
    a = data["options"]
    res = cli.run_cli(a, text=data["file"] if data["route"] == "stdin" else None,
                      path_text=data["file"] if data["route"] == "file" else None,
                      ext=".json" if data["format"] == "json" else ".efg", name="c15_replay")
    print(json.dumps({"then": data.get("result"), "now": res}, indent=1)[:6000])
    return 0
