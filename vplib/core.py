"""Check driver: proof obligations, correspondence, monitors, decision, evidence."""
import hashlib
import json
import os
import re
import subprocess
import sys
import time

from .common import VERIF, COQDIR, REPO
from . import harness, coqrun
from .ops import compare_op, GERR

ALLOWED_AXIOMS = {
    "ClassicalDedekindReals.sig_forall_dec",
    "ClassicalDedekindReals.sig_not_dec",
    "FunctionalExtensionality.functional_extensionality_dep",
    "Classical_Prop.classic",
}
# theorems about the binary64 instance itself (property files Properties/CxxF.v) additionally rest on the standard
# library's specification of primitive floats (Floats.FloatAxioms) and on the primitive types and operations, which
# Print Assumptions lists as well
ALLOWED_FLOAT_AXIOMS = ALLOWED_AXIOMS | {
    "FloatAxioms.Prim2SF_valid", "FloatAxioms.SF2Prim_Prim2SF", "FloatAxioms.Prim2SF_SF2Prim",
    "FloatAxioms.add_spec", "FloatAxioms.sub_spec", "FloatAxioms.mul_spec", "FloatAxioms.div_spec",
    "FloatAxioms.sqrt_spec", "FloatAxioms.opp_spec", "FloatAxioms.abs_spec",
    "FloatAxioms.ltb_spec", "FloatAxioms.leb_spec", "FloatAxioms.eqb_spec", "FloatAxioms.compare_spec",
    "FloatAxioms.classify_spec", "FloatAxioms.of_uint63_spec", "FloatAxioms.normfr_mantissa_spec",
    "FloatAxioms.frshiftexp_spec", "FloatAxioms.ldshiftexp_spec", "FloatAxioms.next_up_spec", "FloatAxioms.next_down_spec",
}


# Print Assumptions prints the shortest unambiguous name, so with Floats imported the same constants appear without
# their module prefix; the primitive types and operations of PrimFloat / PrimInt63 are listed as well
_FLOAT_BASES = {a.split(".")[-1] for a in ALLOWED_FLOAT_AXIOMS if a.startswith("FloatAxioms.")}
_PRIMITIVES = {"float", "int", "add", "sub", "mul", "div", "sqrt", "opp", "abs", "ltb", "leb", "eqb", "compare", "classify",
               "of_uint63", "normfr_mantissa", "frshiftexp", "ldshiftexp", "next_up", "next_down",
               "lsl", "lsr", "land", "lor", "lxor", "mod", "addc", "subc", "mulc", "head0", "tail0", "asr", "divs", "mods",
               "addcarryc", "subcarryc", "diveucl", "diveucl_21", "addmuldiv", "lebs", "ltbs", "compares"}


# the standard library's specification of primitive 63-bit integers (Numbers/Cyclic/Int63/Uint63.v declares them as
# axioms); reached through of_uint63 (the length of a row as a float)
_UINT63_AXIOMS = {"of_to_Z", "lsl_spec", "lsr_spec", "land_spec", "lor_spec", "lxor_spec", "add_spec", "sub_spec", "mul_spec",
                  "mulc_spec", "div_spec", "mod_spec", "eqb_correct", "eqb_refl", "ltb_spec", "leb_spec", "compare_def_spec",
                  "head0_spec", "tail0_spec", "addc_def_spec", "addcarryc_def_spec", "subc_def_spec", "subcarryc_def_spec",
                  "diveucl_def_spec", "diveucl_21_spec", "addmuldiv_def_spec", "asr_spec", "divs_spec", "mods_spec", "ltsb_spec",
                  "lesb_spec", "compares_spec"}


def _allowed(name, float_file):
    if name in ALLOWED_AXIOMS:
        return True
    if float_file:
        if name in ALLOWED_FLOAT_AXIOMS or name.startswith(("PrimFloat.", "PrimInt63.")):
            return True
        if name.startswith("Uint63.") and name.split(".")[-1] in _UINT63_AXIOMS:
            return True
        if "." not in name or name.startswith("FloatAxioms."):
            base = name.split(".")[-1]
            return base in _FLOAT_BASES or base in _PRIMITIVES
    return False


def _is_primitive(name):
    return name.startswith(("PrimFloat.", "PrimInt63.")) or ("." not in name and name in _PRIMITIVES)


FORBIDDEN = re.compile(
    r"\b(Admitted|admit|Axiom|Axioms|Parameter|Parameters|Conjecture|Conjectures|Hypothesis|Hypotheses|"
    r"Variable|Variables|bypass_check|native_compute)\b|Unset\s+Guard|Admit\s+Obligations|type-in-type|"
    r"impredicative-set|Unset\s+Positivity|Unset\s+Universe")
PINS = os.path.join(COQDIR, "Properties", "PINS.json")


def strip_comments(src):
    out = []
    depth = 0
    i = 0
    while i < len(src):
        if src.startswith("(*", i):
            depth += 1
            i += 2
        elif src.startswith("*)", i) and depth > 0:
            depth -= 1
            i += 2
        else:
            if depth == 0:
                out.append(src[i])
            i += 1
    return "".join(out)


def coq_sources():
    res = []
    for root, _, files in os.walk(COQDIR):
        for f in files:
            if f.endswith(".v"):
                res.append(os.path.join(root, f))
    return sorted(res)


def ensure_makefile():
    mk = os.path.join(COQDIR, "Makefile")
    proj = os.path.join(COQDIR, "_CoqProject")
    if not os.path.exists(mk) or os.path.getmtime(mk) < os.path.getmtime(proj):
        subprocess.run(["coq_makefile", "-f", "_CoqProject", "-o", "Makefile"], cwd=COQDIR, check=True,
                       capture_output=True)


def build_model(timeout=3000):
    """Make sure the executable model (Exec.vo and what it needs) is compiled."""
    ensure_makefile()
    p = subprocess.run(["make", "-j16", "theories/Exec.vo"], cwd=COQDIR, capture_output=True, text=True,
                       timeout=timeout)
    if p.returncode != 0:
        raise RuntimeError("model build failed:\n" + p.stdout[-3000:] + p.stderr[-3000:])


def proof_step(pid, thorough=False, timeout=3000):
    """Properties/<pid>.v (theorems over the reals) and, where it exists, Properties/<pid>F.v (theorems about the
    binary64 instance itself, with the float allowlist)."""
    res = _proof_file(pid, pid, thorough, timeout, float_file=False)
    if os.path.exists(os.path.join(COQDIR, "Properties", "%sF.v" % pid)):
        r2 = _proof_file(pid, pid + "F", False, timeout, float_file=True)
        res["ok"] = res["ok"] and r2["ok"]
        res["problems"] += r2["problems"]
        res["theorems"] += r2["theorems"]
        res["obligations"] += r2["obligations"]
        res["discharged"] += r2["discharged"]
        res["axioms"] = sorted(set(res["axioms"]) | set(r2["axioms"]))
        res["checker_cmd"] = res.get("checker_cmd", "") + "; " + r2.get("checker_cmd", "")
        res["wall_s"] = res.get("wall_s", 0) + r2.get("wall_s", 0)
    return res


def _proof_file(pid, fname, thorough, timeout, float_file):
    """Compile Properties/<fname>.v (always recompiled so that Print Assumptions is printed),
    check axioms against the allowlist, grep for forbidden constructs, check the pins."""
    t0 = time.time()
    res = {"ok": True, "problems": [], "theorems": [], "axioms": [], "obligations": 0, "discharged": 0}
    ensure_makefile()
    rel = "Properties/%s.vo" % fname
    src = os.path.join(COQDIR, "Properties", "%s.v" % fname)
    if not os.path.exists(src):
        res["ok"] = False
        res["problems"].append("no property file %s" % src)
        return res
    vo = os.path.join(COQDIR, rel)
    text = strip_comments(open(src).read())
    thms = re.findall(r"^\s*(?:Theorem|Corollary)\s+(\w+)", text, re.M)
    res["theorems"] = thms
    res["obligations"] = len(thms)
    if thorough:
        subprocess.run(["make", "clean"], cwd=COQDIR, capture_output=True)
    for ext in (".vo", ".vok", ".vos", ".glob"):
        q = vo[:-3] + ext
        if os.path.exists(q):
            os.remove(q)
    p = subprocess.run(["make", "-j16", rel], cwd=COQDIR, capture_output=True, text=True, timeout=timeout)
    res["checker_cmd"] = "make -C coq -j16 %s  (coqc 8.16.1, full .vo build%s)" % (
        rel, "; from clean, then coqchk -o -silent" if thorough else "")
    if p.returncode != 0:
        res["ok"] = False
        res["problems"].append("proof build failed: " + (p.stderr[-1500:] or p.stdout[-1500:]))
        return res
    printed = re.findall(r"Print\s+Assumptions\s+(\w+)\s*\.", text)
    for t in thms:
        if t not in printed:
            res["ok"] = False
            res["problems"].append("theorem %s has no Print Assumptions" % t)
    # parse the assumption blocks in order
    blocks = []
    cur = None
    for ln in p.stdout.splitlines():
        if ln.startswith("Closed under the global context"):
            blocks.append([])
            cur = None
        elif ln.startswith("Axioms:"):
            cur = []
            blocks.append(cur)
        elif cur is not None:
            m = re.match(r"^([A-Za-z_][\w.']*)\s*(:.*)?$", ln)
            if m:
                cur.append(m.group(1))
            elif not ln.startswith(" ") and ln.strip():
                cur = None
    if len(blocks) != len(printed):
        res["ok"] = False
        res["problems"].append("expected %d assumption blocks, saw %d" % (len(printed), len(blocks)))
    allax = set()
    discharged = 0
    for name, axs in zip(printed, blocks):
        bad = [a for a in axs if not _allowed(a, float_file)]
        allax.update(("FloatAxioms." + a if (float_file and "." not in a and a in _FLOAT_BASES) else a)
                     for a in axs if not (float_file and _is_primitive(a)))
        if bad:
            res["ok"] = False
            res["problems"].append("theorem %s depends on non-allowlisted axioms %s" % (name, bad))
        elif name in thms:
            discharged += 1
    res["discharged"] = discharged
    res["axioms"] = sorted(allax)
    # forbidden constructs anywhere in the development
    for f in coq_sources():
        txt = strip_comments(open(f).read())
        m = FORBIDDEN.search(txt)
        if m:
            res["ok"] = False
            res["problems"].append("forbidden construct %r in %s" % (m.group(0), os.path.relpath(f, VERIF)))
    # statement pins
    try:
        pins = json.load(open(PINS))
    except Exception:
        pins = {}
    h = hashlib.sha256(open(src, "rb").read()).hexdigest()
    if pins.get(fname) != h:
        res["ok"] = False
        res["problems"].append("property file %s does not match its pinned hash (statements changed?)" % fname)
    if thorough and res["ok"]:
        q = subprocess.run(["coqchk", "-silent", "-o", "-Q", COQDIR, "Cfr", "Cfr.Properties.%s" % fname],
                           capture_output=True, text=True, timeout=timeout)
        res["coqchk"] = (q.stdout + q.stderr)[-3000:]
        if q.returncode != 0:
            res["ok"] = False
            res["problems"].append("coqchk failed: " + res["coqchk"][-800:])
    res["wall_s"] = time.time() - t0
    return res


def repin():
    pins = {}
    d = os.path.join(COQDIR, "Properties")
    for f in sorted(os.listdir(d)):
        if re.fullmatch(r"C\d+F?\.v", f):
            pins[f[:-2]] = hashlib.sha256(open(os.path.join(d, f), "rb").read()).hexdigest()
    json.dump(pins, open(PINS, "w"), indent=1, sort_keys=True)
    return pins


# ---------- known findings ----------
def load_known():
    try:
        return json.load(open(os.path.join(VERIF, "known_findings.json")))
    except Exception:
        return {"known": [], "fixed": []}


# ---------- generic evaluation of op-sequence cases ----------
def evaluate_case(cb, impl, model, scope, rel=1e-9, multi_names=None):
    """Compare implementation and model on the in-scope ops of one case, skipping ops whose
    inputs come from an op on which the two already disagree (taint).
    Returns (disagreements, n_compared, n_tainted)."""
    dis = []
    if "from_root" not in impl:
        return [("executor", str(impl)[:300])], 0, 0
    fr_i = impl["from_root"]
    fr_m, ops_m = model
    si = "ok" if "ok" in fr_i else ("err" if "err" in fr_i else "panic")
    sm = {0: "ok", 1: "err"}.get(fr_m["tag"], "?")
    if si != sm or (si == "err" and fr_i["err"] != GERR[fr_m["args"][0]]):
        d = "from_root impl=%s model=%s" % (fr_i, (sm, GERR[fr_m["args"][0]] if sm == "err" else ""))
        return ([("from_root", d)] if "from_root" in scope else [("upstream", d)]), 1, 0
    if si != "ok":
        return [], 1, 0
    tainted = set()
    ncmp = 1
    ntaint = 0
    for k, (kind, (srcs, dst)) in enumerate(zip(cb.kinds, cb.deps)):
        io = impl["ops"][k]
        mo = ops_m[k]
        if any(s in tainted for s in srcs):
            ntaint += 1
            if dst is not None:
                tainted.add(dst)
            continue
        if kind == "num_infosets":
            d = None if io == mo else "num_infosets impl=%s model=%s" % (io, mo)
        else:
            d = compare_op(kind, io, mo, rel, multi_names)
        if d:
            if dst is not None:
                tainted.add(dst)
            if kind in scope:
                dis.append((kind, "op %d (%s): %s" % (k, kind, d)))
            else:
                ntaint += 1
        elif kind in scope:
            ncmp += 1
    return dis, ncmp, ntaint


class Outcome:
    """Collects what a check saw and turns it into exit status, VIOLATION lines and evidence."""

    def __init__(self, pid, tier, seed):
        self.pid = pid
        self.tier = tier
        self.seed = seed
        self.t0 = time.time()
        self.judged_j = 0
        self.evaluations = 0
        self.nontrivial = set()
        self.samples = []
        self.dist = {}
        self.corr_breaks = []     # (case id, text, replay dict)
        self.monitor_hits = []    # (case id, text, replay dict)
        self.known_hits = []
        self.notes = []
        self.assumptions = []
        self.rule = ""
        self.extra = {}
        self.proof = None

    def count(self, key, n=1):
        self.dist[key] = self.dist.get(key, 0) + n

    def add_nontrivial(self, obj):
        self.nontrivial.add(hashlib.sha256(json.dumps(obj, sort_keys=True, default=str).encode()).hexdigest())

    def finish(self):
        known = load_known()
        violations = []
        replay_dir = os.path.join(VERIF, "replays")
        os.makedirs(replay_dir, exist_ok=True)

        def write_replay(kind, text, data):
            h = hashlib.sha256((text + json.dumps(data, sort_keys=True, default=str)).encode()).hexdigest()[:12]
            path = os.path.join(replay_dir, "%s-%s.json" % (self.pid, h))
            json.dump({"property": self.pid, "kind": kind, "what": text, "seed": self.seed, "tier": self.tier,
                       "replay_cmd": "./check %s --replay %s" % (self.pid, path), "data": data},
                      open(path, "w"), indent=1, default=str)
            return path

        # 1. monitor hits are concrete failing inputs
        for cid, text, data, kclass in self.monitor_hits:
            k = next((k for k in known.get("known", []) if k["property"] == self.pid and k["class"] == kclass), None)
            if k:
                self.known_hits.append((k, text))
                continue
            if len(violations) < 5:
                violations.append("VIOLATION property=%s replay=%s" % (self.pid, write_replay("monitor", text, data)))
        # 2. broken correspondence / proof without a confirmed failing input
        if not violations:
            if self.proof is not None and not self.proof["ok"]:
                path = write_replay("proof-obligation", "; ".join(self.proof["problems"]),
                                    {"theorems": self.proof.get("theorems"), "problems": self.proof["problems"]})
                violations.append("VIOLATION property=%s replay=%s no-failing-input-found" % (self.pid, path))
            elif self.corr_breaks:
                cid, text, data = self.corr_breaks[0]
                data = dict(data)
                data["correspondence"] = "model (Coq, binary64 instance) vs implementation disagree; " \
                                         "no property monitor confirmed a failing input on %d disagreeing cases" % len(self.corr_breaks)
                data["all_disagreements"] = [t for _, t, _ in self.corr_breaks[:20]]
                path = write_replay("correspondence", text, data)
                violations.append("VIOLATION property=%s replay=%s no-failing-input-found" % (self.pid, path))
        seen = set()
        for k, text in self.known_hits:
            if k["class"] not in seen:
                seen.add(k["class"])
                print("KNOWN-FINDING: property=%s %s" % (self.pid, k["what"]))
        for v in violations[:5]:
            print(v)
        self.write_evidence(len(violations))
        return 1 if violations else 0

    def write_evidence(self, nviol):
        pr = self.proof or {}
        cov = {
            "obligations": pr.get("obligations", 0),
            "discharged": pr.get("discharged", 0),
            "checker_cmd": pr.get("checker_cmd", ""),
            "trusted_base": ["Coq 8.16.1 kernel (coqc, vm_compute used only in closed Examples and in the correspondence runs)"]
                            + ["axiom: " + a for a in pr.get("axioms", [])]
                            + ["hand-written Gallina model tied to /repo by the differential correspondence run of this check",
                               "Rust executor /verif/harness + Python driver /verif/vplib"],
            "theorems": pr.get("theorems", []),
            "evaluations": self.evaluations,
            "distinct_nontrivial": len(self.nontrivial),
            "rule": self.rule,
            "samples": [x if len(json.dumps(x, default=str)) <= 6000 else
                        {"truncated_sample": json.dumps(x, default=str)[:6000]} for x in self.samples[:3]],
            "input_distribution": self.dist,
            "correspondence_disagreements": len(self.corr_breaks),
            "monitor_hits": len(self.monitor_hits),
            "known_finding_hits": len(self.known_hits),
        }
        cov.update(self.extra)
        ev = {
            "property_id": self.pid,
            "tier": self.tier,
            "seed": self.seed,
            "level": "proof",
            "coverage": cov,
            "assumptions": self.assumptions + self.notes,
            "wall_s": round(time.time() - self.t0, 2),
            "violations": nviol,
        }
        # development runs without the proof step never overwrite the evidence of record
        edir = os.path.join(VERIF, "evidence") if self.proof is not None else os.path.join(VERIF, ".cache", "dev-evidence")
        os.makedirs(edir, exist_ok=True)
        json.dump(ev, open(os.path.join(edir, "%s.json" % self.pid), "w"), indent=1, default=str)


# ---------- conditioning: is a float disagreement just amplified rounding noise? ----------
def impl_floats(cb, impl):
    """all floats of the solve / named / info results of one case, in a fixed order"""
    from .common import b2f
    out = []
    random_slots = set()
    for j, (kind, o) in enumerate(zip(cb.kinds, impl.get("ops", []))):
        # results of the production samplers (no pinned draws) differ from run to run: they say nothing about conditioning
        js = cb.ops[j] if j < len(cb.ops) and isinstance(cb.ops[j], dict) else {}
        if js.get("op") == "solve":
            if js.get("draws") is None and js.get("method") in ("sampled", "external"):
                random_slots.add(js.get("dst"))
                continue
            random_slots.discard(js.get("dst"))
        elif js.get("src") in random_slots and js.get("op") in ("named", "info"):
            continue
        if not isinstance(o, dict) or "ok" not in o:
            out.append(("status", str(sorted(o.keys())) if isinstance(o, dict) else str(o)))
            continue
        k = kind[:-5] if kind.endswith("_long") else kind
        if k in ("solve", "info", "distance"):
            out += [b2f(x) for x in o["ok"][:5]]
        elif k == "named":
            for pl in o["ok"]:
                for it in sorted(pl["items"], key=lambda it: it[1]):
                    out.append(("name", it[1], tuple(a for a, _ in it[3])))
                    out += [b2f(p) for _, p in it[3]]
    return out


def build_model_j(timeout=3000):
    """the jittered twin of Exec (tools/gen_execj.py): regenerated from Exec.v, then compiled"""
    import importlib.util
    spec = importlib.util.spec_from_file_location("gen_execj", os.path.join(VERIF, "tools", "gen_execj.py"))
    m = importlib.util.module_from_spec(spec)
    spec.loader.exec_module(m)
    m.ensure()
    ensure_makefile()
    p = subprocess.run(["make", "-j16", "theories/ExecJ.vo", "theories/ExecK.vo", "theories/ExecU.vo", "theories/ExecD.vo"], cwd=COQDIR, capture_output=True, text=True, timeout=timeout)
    if p.returncode != 0:
        raise RuntimeError("jittered model build failed:\n" + p.stdout[-3000:] + p.stderr[-3000:])


def model_rounding_sensitive(cb, model, rel, name="condj", extra_imports=""):
    """Evaluate the model of this case once more at the jittered binary64 instance FNumJ (every inexact operation
    moved by one ulp, exact operations kept exact).  If the model's OWN results move by more than rel/10 (or a
    support / status changes), the case amplifies rounding noise beyond the comparison tolerance — typically a
    cumulative regret that is zero up to rounding decides a branch of regret matching — and a model/implementation
    difference on it says nothing about the property."""
    from . import coqrun
    from .common import deep_close
    try:
        build_model_j()
        for mod_ in ("ExecU", "ExecD", "ExecJ", "ExecK"):      # always up / always down / by parity, both ways
            other = coqrun.run_shards(name, [cb.coq()], extra_imports=extra_imports, exec_module=mod_).get(cb.cid)
            if other is not None and deep_close(model, other, rel / 10) is not None:
                return True
    except Exception:
        return False
    return False


def rounding_explains(cb, dis, rel, name="condp", extra_imports="", multi_names=None, exe_env=None):
    """Is the first model/implementation disagreement of this case explained by rounding noise that the algorithm
    itself amplifies?  The solve behind the first disagreeing op is repeated for every prefix budget T' <= T on the
    implementation, on the model (FNum) and on jittered instances of the model (FNumU/D/J/K: every inexact operation
    moved by one ulp, in four different patterns).  The disagreement is excused iff at EVERY prefix the
    implementation's result agrees (within the comparison tolerance) with the model or with one of the jittered
    models: whatever the implementation returns is then something the specified algorithm itself returns under a
    one-ulp perturbation of its arithmetic (a cumulative regret that is zero up to rounding decides a branch of
    regret matching; the trajectories separate there and usually meet again later).  A defect in an update rule
    produces, at some prefix, a result that none of them produces, and is not excused.  Returns (excused, info)."""
    from . import coqrun, harness as H
    from .common import b2f
    from .ops import CaseBuilder, compare_op
    try:
        k = int(dis[0][1].split()[1])
    except Exception:
        return False, "no op index"
    srcs, _ = cb.deps[k]
    kind = cb.kinds[k]
    if kind.startswith("solve"):
        j = k
    else:
        if len(srcs) != 1:
            return False, "not derived from one solve"
        j = next((i for i, (_, d) in enumerate(cb.deps) if d == srcs[0]), None)
        if j is None or not cb.kinds[j].startswith("solve") or cb.ops[j].get("op") != "solve":
            return False, "not derived from a solve"
    o = cb.ops[j]
    T = int(o["iters"])
    if T < 2 or T > 400:
        return False, "budget outside 2..400"
    prefixes = list(range(1, T + 1)) if T <= 40 else sorted(set(list(range(1, 21)) + [int(round(20 + (T - 20) * i / 20.0)) for i in range(1, 21)]))
    params = o["params"]
    if isinstance(params, list):
        params = [b2f(x) for x in params]
    c2 = CaseBuilder(cb.cid, cb.tree, dict(cb.meta))
    idx = []
    for t in prefixes:
        s_ = c2.solve(o["method"], t, b2f(o["max_reg"]), o["threads"], params, o.get("draws"), yield_seed=o.get("yield_seed", 0))
        c2.named(s_)
        idx.append(len(c2.ops) - 2)
    variants = ("Exec", "ExecU", "ExecD", "ExecJ", "ExecK")
    try:
        build_model_j()
        impl = H.run_cases(name, [c2.case()]).get(cb.cid, {})
        runs = {}
        for mod_ in variants:
            r = coqrun.run_shards(name + "_" + mod_, [c2.coq()], extra_imports=extra_imports, exec_module=mod_).get(cb.cid)
            if r is None:
                return False, "model run failed (%s)" % mod_
            runs[mod_] = r[1]
    except Exception as e:
        return False, "exception %s" % e
    if "ops" not in impl:
        return False, "implementation produced no result on the prefix case"
    first_diff = None
    used = set()
    for t, i in zip(prefixes, idx):
        ok = None
        for m in variants:
            if all(compare_op(kd, impl["ops"][i + off], runs[m][i + off], rel, multi_names) is None
                   for off, kd in ((0, "solve"), (1, "named"))):
                ok = m
                break
        if ok is None:
            return False, ("at budget %d the implementation's result is produced neither by the model nor by any of its "
                           "one-ulp perturbations (first budget where it leaves the model itself: %s)" % (t, first_diff or t))
        if ok != "Exec":
            used.add(ok)
            if first_diff is None:
                first_diff = t
    if first_diff is None:
        return False, "the prefix runs agree with the model although the original operation did not"
    return True, ("from budget %d on the implementation follows a one-ulp perturbation of the model (%s) instead of the model; "
                  "it never leaves the set of perturbed models" % (first_diff, ",".join(sorted(used))))


def thread_difference_explained(cb, k_op, rel, name="condt", extra_imports="", multi_names=None):
    """A solve with k threads (op k_op of the case) returned something else than the same solve with one thread.
    The property allows differences "up to floating-point summation order"; regret matching amplifies such a
    difference to O(1) where a cumulative regret is zero up to rounding.  The solve is repeated for every prefix
    budget with 1 and with k threads on the implementation, and on the model and its four jittered instances.
    Let t_k be the first prefix at which the k-thread run leaves the 1-thread run (T if the repetition does not
    leave it at all: the difference depends on the schedule).  The difference is explained iff some jittered model
    leaves the model at a prefix <= t_k: the specified algorithm itself is rounding-sensitive no later than that.
    A lost update, a stale cache or a wrong frontier separates the runs where the jittered models still agree."""
    from . import coqrun, harness as H
    from .common import b2f, deep_close
    from .ops import CaseBuilder, compare_op
    o = cb.ops[k_op]
    if o.get("op") != "solve":
        return False, "not a solve"
    T = int(o["iters"])
    if T < 1 or T > 400:
        return False, "budget outside 1..400"
    if ((cb.meta or {}).get("stats") or {}).get("nodes", 0) > 800:
        return False, "game too large for the conditioning probe (the difference is reported as it stands)"
    prefixes = list(range(1, T + 1)) if T <= 40 else sorted(set(list(range(1, 21)) + [int(round(20 + (T - 20) * i / 20.0)) for i in range(1, 21)]))
    params = o["params"]
    if isinstance(params, list):
        params = [b2f(x) for x in params]
    c2 = CaseBuilder(cb.cid, cb.tree, dict(cb.meta))
    idx = []
    for t in prefixes:
        a = c2.solve(o["method"], t, b2f(o["max_reg"]), 1, params, o.get("draws"))
        c2.named(a)
        b_ = c2.solve(o["method"], t, b2f(o["max_reg"]), o["threads"], params, o.get("draws"), yield_seed=o.get("yield_seed", 0))
        c2.named(b_)
        idx.append(len(c2.ops) - 4)
    variants = ("Exec", "ExecU", "ExecD", "ExecJ", "ExecK")
    # the model of the multi-threaded solver itself (VanillaMulti.solve_multi at binary64) under four schedules of the
    # atomic increments; proved equal to the single-threaded model over the reals for every schedule
    sched_cases = []
    if o["method"] in ("full", "sampled") and int(o["threads"]) >= 2:
        for sk in range(4):
            cs = CaseBuilder(cb.cid, cb.tree, dict(cb.meta))
            for t in prefixes:
                a = cs.solve(o["method"], t, b2f(o["max_reg"]), o["threads"], params, o.get("draws"), multi_sched=sk)
                cs.named(a)
            sched_cases.append(cs)
    try:
        build_model_j()
        impl = H.run_cases(name, [c2.case()]).get(cb.cid, {})
        runs = {}
        for mod_ in variants:
            r = coqrun.run_shards(name + "_" + mod_, [c2.coq()], extra_imports=extra_imports, exec_module=mod_).get(cb.cid)
            if r is None:
                return False, "model run failed (%s)" % mod_
            runs[mod_] = r[1]
        cancel = None
        if o["method"] in ("full", "sampled"):
            cc_ = CaseBuilder(cb.cid, cb.tree, dict(cb.meta))
            cc_.cancel(o["method"], T, params, o.get("draws"))
            r = coqrun.run_shards(name + "_c", [cc_.coq()], extra_imports=extra_imports).get(cb.cid)
            if r is not None and isinstance(r[1][0], dict) and r[1][0].get("tag") == 0:
                cancel = [float(x) for x in r[1][0]["args"][0]]
        sched_runs = []
        for sk, cs in enumerate(sched_cases):
            r = coqrun.run_shards(name + "_s%d" % sk, [cs.coq()], extra_imports=extra_imports).get(cb.cid)
            if r is not None:
                sched_runs.append(r[1])
    except Exception as e:
        return False, "exception %s" % e
    if "ops" not in impl:
        return False, "no result on the prefix case"

    def fl(o_solve, o_named):
        out = []
        if "ok" in o_solve:
            out += [b2f(x) for x in o_solve["ok"][:3]]
        if "ok" in o_named:
            for pl in o_named["ok"]:
                for it in sorted(pl["items"], key=lambda it: it[1]):
                    out.append((it[1], tuple(a for a, _ in it[3])))
                    out += [b2f(p) for _, p in it[3]]
        return out
    t_k = None
    t_jit = None
    for t, i in zip(prefixes, idx):
        ops = impl["ops"]
        if t_k is None and deep_close(fl(ops[i], ops[i + 1]), fl(ops[i + 2], ops[i + 3]), rel) is not None:
            t_k = t
        if t_jit is None and any(deep_close(runs["Exec"][i + off], runs[m][i + off], rel / 10) is not None
                                 for m in variants[1:] for off in (0, 1)):
            t_jit = t
    # the schedule runs have two ops per prefix (solve, named); the single-thread model has them at i, i+1
    t_sched = None
    for n_, (t, i) in enumerate(zip(prefixes, idx)):
        if t_sched is None and any(deep_close(runs["Exec"][i + off], sr[2 * n_ + off], rel / 10) is not None
                                   for sr in sched_runs for off in (0, 1)):
            t_sched = t
    limit = t_k if t_k is not None else T
    info = ("first budget at which the repetition with %s threads leaves the one-thread run: %s; first budget at which a "
            "one-ulp perturbation of the model leaves the model: %s; first budget at which the model of the multi-threaded "
            "solver under another schedule of its atomic updates leaves the single-threaded model at binary64: %s"
            % (o["threads"], t_k, t_jit, t_sched))
    ok = (t_jit is not None and t_jit <= limit) or (t_sched is not None and t_sched <= limit)
    if not ok and cancel:
        # neither a one-ulp perturbation nor another schedule of the model reproduces the difference (it may not even
        # come back when the k-thread solve is repeated: it depends on the schedule of the workers).  If in some iteration a cumulative regret is the result of cancellation (|sum| below 1e-10 of the
        # magnitudes added, often exactly 0 in the sequential order), its sign -- on which regret matching branches --
        # is decided by the order of the atomic additions: "up to floating-point summation order".
        t_c = next((k_ + 1 for k_, x in enumerate(cancel) if x <= 1e-10), None)
        info += "; first iteration in which some cumulative regret is a cancelled sum (ratio <= 1e-10): %s" % t_c
        # (when the k-thread run leaves the one-thread run reproducibly, the cancellation must not come later than that)
        ok = t_c is not None and t_c <= limit
    return ok, info


def ill_conditioned(cb, impl, rel, name="cond", trials=4, eps=1e-13):
    """Re-run the implementation on copies of the case whose payoffs are perturbed by a relative 1e-13.
    If the implementation's own results move by more than rel/10 the case amplifies rounding noise by
    more than the comparison tolerance can absorb: a model/implementation difference there says nothing."""
    import copy
    import random
    from .common import b2f, f2b, close
    from . import harness as H
    rng = random.Random(12345)
    cases = []
    # conditioning is a property of the algorithm, not of a schedule: every solve of the probe runs with one thread (a
    # race in the multi-threaded code would otherwise make the re-runs differ and pass for "ill-conditioned")
    multi = any(isinstance(o, dict) and o.get("op") == "solve" and int(o.get("threads", 1)) != 1 for o in cb.ops)

    def one_thread(c):
        for o in c["ops"]:
            if isinstance(o, dict) and o.get("op") == "solve":
                o["threads"] = 1
        return c
    if multi:
        c0 = one_thread(copy.deepcopy(cb.case()))
        c0["id"] = "base"
        cases.append(c0)
    for k in range(trials):
        c = copy.deepcopy(cb.case())
        c["id"] = k
        if multi:
            one_thread(c)

        def go(n):
            if "t" in n:
                x = b2f(n["t"])
                if x == x and abs(x) != float("inf"):
                    n["t"] = f2b(x * (1.0 + eps * rng.choice([-1, 1]) * rng.random()))
            elif "o" in n:
                for _, ch in n["o"]:
                    go(ch)
            else:
                for _, ch in n["a"]:
                    go(ch)
        go(c["tree"])
        cases.append(c)
    res = H.run_cases(name, cases)
    base = impl_floats(cb, res.get("base", {})) if multi else impl_floats(cb, impl)
    for k in range(trials):
        other = impl_floats(cb, res.get(k, {}))
        if len(other) != len(base):
            return True
        for a, b in zip(base, other):
            if isinstance(a, tuple) or isinstance(b, tuple):
                if a != b:
                    return True     # even the support changes
            elif not close(a, b, rel / 10):
                return True
    return False


_MT_PROBES = [0]


def multi_thread_filter(cb, dis, out=None, limit=8):
    """Disagreements between the implementation run with several threads and the (sequential) model: the property allows
    differences "up to floating-point summation order", which regret matching can amplify where a cumulative regret is
    zero up to rounding.  The first disagreeing operation is traced back to its solve; if that solve used >= 2 threads,
    thread_difference_explained decides (one-ulp perturbation of the model, another schedule of the model of the
    multi-threaded solver, or a cancelled cumulative regret no later than the first budget at which the k-thread run
    leaves the one-thread run of the implementation itself)."""
    import re
    first = None
    for kind, text in dis:
        m = re.match(r"op (\d+) \((solve|named|info)\)", text)
        if not m:
            continue
        j = int(m.group(1))
        while j >= 0 and not (isinstance(cb.ops[j], dict) and cb.ops[j].get("op") == "solve"):
            j -= 1
        if j >= 0 and int(cb.ops[j].get("threads", 1)) >= 2:
            first = j
        break
    if first is None or _MT_PROBES[0] >= limit:
        return dis
    _MT_PROBES[0] += 1
    ok, why = thread_difference_explained(cb, first, 1e-9, name="condmt_%s" % cb.cid)
    if ok:
        if out is not None:
            out.count("multi_thread_summation_order_differences_not_judged")
        return [(k, t) for k, t in dis if k not in ("solve", "named", "info")]
    return dis
