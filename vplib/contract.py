"""Independent reading of the construction contract (property C11) on raw trees, and
tree mutations that (may) violate it.  Shares no code with the Coq model or the crate."""
import copy
import math

from .common import b2f, f2b


def violations(t):
    """Set of GameError kinds whose documented rule the tree violates (empty = valid).
    'ProbabilitiesNotEqual?' marks proportional weight vectors whose binary64 normalisations
    differ by rounding only: either outcome is acceptable there."""
    viol = set()
    chance_seen = {}      # info -> normalised probs
    by_info = {1: {}, 2: {}}   # info -> list of (actions, history or None for single)

    def norm(ws):
        tot = 0.0
        for w in ws:
            tot += w
        return [w / tot for w in ws]

    def go(n, h1, h2):
        if "t" in n:
            if not math.isfinite(b2f(n["t"])):
                viol.add("NonFinitePayoff")
            return
        if "o" in n:
            outs = n["o"]
            if not outs:
                viol.add("EmptyChance")
                return
            ws = [b2f(w) for w, _ in outs]
            bad = any(not (w > 0 and math.isfinite(w)) for w in ws)
            if bad:
                viol.add("NonPositiveChance")
            if len(outs) >= 2 and n.get("c") is not None and not bad:
                p = norm(ws)
                old = chance_seen.get(n["c"])
                if old is None:
                    chance_seen[n["c"]] = p
                elif old != p:
                    if len(old) == len(p) and all(abs(a - b) <= 1e-12 * max(a, b) for a, b in zip(old, p)):
                        viol.add("ProbabilitiesNotEqual?")
                    else:
                        viol.add("ProbabilitiesNotEqual")
            for _, c in outs:
                go(c, h1, h2)
            return
        pl = n["p"]
        acts = [a for a, _ in n["a"]]
        if not acts:
            viol.add("EmptyPlayer")
            return
        h = h1 if pl == 1 else h2
        lst = by_info[pl].setdefault(n["i"], [])
        for oacts, oh in lst:
            if oacts != acts:
                viol.add("ActionsNotEqual")
            elif len(acts) >= 2 and oh != h:
                viol.add("ImperfectRecall")
        lst.append((acts, h))
        if len(acts) >= 2 and len(set(acts)) != len(acts):
            viol.add("ActionsNotUnique")
        for ai, (_, c) in enumerate(n["a"]):
            if len(acts) >= 2:
                nh = h + ((n["i"], ai),)
                go(c, nh if pl == 1 else h1, nh if pl == 2 else h2)
            else:
                go(c, h1, h2)

    go(t, (), ())
    return viol


def _slots(t):
    """all (container, key) positions holding a subtree, with depth"""
    out = []

    def go(n, d):
        if "o" in n:
            for e in n["o"]:
                out.append((e, 1, d + 1))
                go(e[1], d + 1)
        elif "a" in n:
            for e in n["a"]:
                out.append((e, 1, d + 1))
                go(e[1], d + 1)
    go(t, 0)
    return out


def _nodes(t, pred):
    out = []

    def go(n):
        if pred(n):
            out.append(n)
        if "o" in n:
            for _, c in n["o"]:
                go(c)
        elif "a" in n:
            for _, c in n["a"]:
                go(c)
    go(t)
    return out


def term(rng):
    return {"t": f2b(rng.uniform(-5, 5))}


def mutate(rng, tree, label_space=50):
    """Apply one or two contract-relevant mutations; returns (tree', tags). The result may
    still be valid - the oracle decides."""
    t = copy.deepcopy(tree)
    tags = []
    L = lambda: rng.randrange(label_space)
    for _ in range(rng.choice([1, 1, 1, 2])):
        kind = rng.choice(["empty_chance", "bad_weight", "probs_not_equal", "probs_rescaled", "forgotten_action",
                           "absent_minded", "distant_recall", "empty_player", "actions_differ", "actions_reordered",
                           "single_vs_multi", "multi_vs_single", "dup_action", "bad_payoff", "single_action_clash",
                           "single_outcome_shared", "all_negative"])
        slots = _slots(t)
        if not slots:
            # a bare terminal: wrap it
            t = {"c": None, "o": [[f2b(1.0), t], [f2b(1.0), term(rng)]]}
            slots = _slots(t)
        e, k, d = rng.choice(slots)
        pl = rng.choice([1, 2])
        if kind == "empty_chance":
            e[k] = {"c": rng.choice([None, L()]), "o": []}
        elif kind == "all_negative":
            ch = _nodes(t, lambda n: "o" in n and len(n["o"]) >= 2)
            if ch:
                node = rng.choice(ch)
                for o in node["o"]:
                    o[0] = f2b(-abs(b2f(o[0])))
        elif kind == "bad_weight":
            ch = _nodes(t, lambda n: "o" in n and n["o"])
            if ch:
                rng.choice(rng.choice(ch)["o"])[0] = f2b(rng.choice([0.0, -0.0, -1.0, float("nan"), float("inf"), float("-inf"), 5e-324]))
            else:
                e[k] = {"c": None, "o": [[f2b(0.0), term(rng)]]}
        elif kind in ("probs_not_equal", "probs_rescaled"):
            info = L() + 5000
            ws = [rng.uniform(0.1, 2) for _ in range(rng.choice([2, 3]))]
            if kind == "probs_rescaled":
                sc = rng.choice([2.0, 0.25, 3.0, 0.1])
                ws2 = [w * sc for w in ws]
            else:
                ws2 = list(ws)
                c = rng.random()
                if c < 0.4:
                    ws2[rng.randrange(len(ws2))] *= rng.choice([1.5, 1.0 + 1e-9])
                elif c < 0.7:
                    ws2 = ws2[::-1]
                else:
                    ws2 = ws2 + [1.0] if rng.random() < 0.5 else ws2[:-1] if len(ws2) > 2 else ws2 + [1.0]
            e[k] = {"c": info, "o": [[f2b(w), term(rng)] for w in ws]}
            e2, k2, _ = rng.choice(_slots(t))
            if e2[k2] is not e[k]:
                e2[k2] = {"c": info, "o": [[f2b(w), term(rng)] for w in ws2]}
        elif kind == "forgotten_action":
            x, y = L() + 6000, L() + 7000
            sub = lambda: {"p": pl, "i": y, "a": [[1, term(rng)], [2, term(rng)]]}
            mid = lambda s: s if rng.random() < 0.5 else {"p": 3 - pl, "i": L() + 8000, "a": [[1, s], [2, term(rng)]]}
            e[k] = {"p": pl, "i": x, "a": [[1, mid(sub())], [2, mid(sub())]]}
        elif kind == "absent_minded":
            x = L() + 6000
            inner = {"p": pl, "i": x, "a": [[1, term(rng)], [2, term(rng)]]}
            e[k] = {"p": pl, "i": x, "a": [[1, inner], [2, term(rng)]]}
        elif kind == "distant_recall":
            x = L() + 6000
            e[k] = {"p": pl, "i": x, "a": [[1, term(rng)], [2, term(rng)]]}
            e2, k2, _ = rng.choice(_slots(t))
            if e2[k2] is not e[k]:
                e2[k2] = {"p": pl, "i": x, "a": [[1, term(rng)], [2, term(rng)]]}
        elif kind == "empty_player":
            e[k] = {"p": pl, "i": L(), "a": []}
        elif kind in ("actions_differ", "actions_reordered"):
            ps = _nodes(t, lambda n: "a" in n and len(n["a"]) >= 2)
            if ps:
                src = rng.choice(ps)
                acts = [a for a, _ in src["a"]]
                if kind == "actions_reordered":
                    acts2 = acts[::-1]
                else:
                    acts2 = list(acts)
                    c = rng.random()
                    if c < 0.5:
                        acts2[rng.randrange(len(acts2))] = L() + 9000
                    elif c < 0.75:
                        acts2.append(L() + 9000)
                    elif len(acts2) > 2:
                        acts2.pop()
                    else:
                        acts2.append(L() + 9000)
                e[k] = {"p": src["p"], "i": src["i"], "a": [[a, term(rng)] for a in acts2]}
        elif kind in ("single_vs_multi", "multi_vs_single"):
            x = L() + 6000
            one = {"p": pl, "i": x, "a": [[1, term(rng)]]}
            two = {"p": pl, "i": x, "a": [[1, term(rng)], [2, term(rng)]]}
            first, second = (one, two) if kind == "single_vs_multi" else (two, one)
            c = rng.random()
            if c < 0.5:
                e[k] = {"c": None, "o": [[f2b(1.0), first], [f2b(2.0), second]]}
            else:
                # one of them is an ancestor of the other (directly, or with a node of the other player in between)
                below = second if c < 0.8 else {"p": 3 - pl, "i": L() + 7000, "a": [[1, second], [2, term(rng)]]}
                first["a"][0][1] = below
                e[k] = first
        elif kind == "dup_action":
            a = L()
            e[k] = {"p": pl, "i": L() + 6000, "a": [[a, term(rng)], [L(), term(rng)], [a, term(rng)]][:rng.choice([2, 3])]
                    if rng.random() < 0.5 else [[a, term(rng)], [a, term(rng)]]}
        elif kind == "bad_payoff":
            ts = _nodes(t, lambda n: "t" in n)
            if not ts:      # an earlier mutation of this round removed every terminal (e.g. an emptied root)
                continue
            rng.choice(ts)["t"] = f2b(rng.choice([float("nan"), float("inf"), float("-inf")]))
        elif kind == "single_action_clash":
            x = L() + 6000
            e[k] = {"c": None, "o": [[f2b(1.0), {"p": pl, "i": x, "a": [[1, term(rng)]]}],
                                     [f2b(1.0), {"p": pl, "i": x, "a": [[rng.choice([1, 2]), term(rng)]]}]]}
        elif kind == "single_outcome_shared":
            # single-outcome chance nodes are transparent: sharing an infoset with anything is fine
            x = L() + 5000
            e[k] = {"c": None, "o": [[f2b(1.0), {"c": x, "o": [[f2b(3.0), term(rng)]]}],
                                     [f2b(1.0), {"c": x, "o": [[f2b(1.0), term(rng)], [f2b(2.0), term(rng)]]}]]}
        tags.append(kind)
    return t, tags
