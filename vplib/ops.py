"""Operation sequences on one game: built once, rendered twice (JSON for the Rust
executor, Coq for the model), and compared generically."""
from .common import f2b, b2f, deep_close
from .coqrun import coq_tree, coq_named, coq_N, coq_list
from .common import coq_float

GERR = ["EmptyChance", "NonPositiveChance", "ProbabilitiesNotEqual", "ImperfectRecall",
        "EmptyPlayer", "ActionsNotEqual", "ActionsNotUnique", "NonFinitePayoff"]
SERR = ["InvalidInfoset", "InvalidAction", "InvalidProbability", "UninitializedInfoset"]


class CaseBuilder:
    def __init__(self, cid, tree, meta=None):
        self.cid = cid
        self.tree = tree
        self.ops = []        # json ops
        self.defs = []       # coq definitions
        self.outs = []       # coq out expressions, aligned with ops
        self.kinds = []      # op kinds for comparison
        self.deps = []       # (source slots, destination slot) per op
        self.nslots = 0
        self.meta = meta or {}
        self.g = "g%d" % cid

    def slot(self):
        k = self.nslots
        self.nslots += 1
        return k

    def sl(self, k):
        return "p%d_%d" % (self.cid, k)

    def _def(self, name, body):
        self.defs.append("Definition %s := Eval vm_compute in (%s)." % (name, body))

    def _op(self, kind, js, out, srcs=(), dst=None):
        self.ops.append(js)
        self.outs.append(out)
        self.kinds.append(kind)
        self.deps.append((tuple(srcs), dst))
        return len(self.ops) - 1

    # ---- operations ----
    def num_infosets(self):
        return self._op("num_infosets", {"op": "num_infosets"}, "o_num_infosets %s" % self.g)

    def import_(self, named, fast=True):
        k = self.slot()
        r = "r%d_%d" % (self.cid, k)
        self._def(r, "f_import %s %s %s" % ("true" if fast else "false", self.g, coq_named(named)))
        self._def(self.sl(k), "p_of %s" % r)
        self._op("import", {"op": "import", "dst": k, "fast": fast, "strat": named}, "o_import %s" % r, (), k)
        return k

    def truncate(self, src, thresh, inplace=False):
        """inplace: the executor truncates the very object in slot src and moves it to the new slot (src is empty
        afterwards); otherwise it truncates a clone.  The model is a pure function either way."""
        k = self.slot()
        self._def(self.sl(k), "f_truncate %s %s %s" % (self.g, coq_float(thresh), self.sl(src)))
        self._op("truncate", {"op": "truncate", "src": src, "dst": k, "thresh": f2b(thresh), "inplace": bool(inplace)},
                 "o_opt %s" % self.sl(k), (src,), k)
        return k

    def roundtrip(self, src, fast=True):
        k = self.slot()
        r = "r%d_%d" % (self.cid, k)
        self._def(r, "f_roundtrip %s %s %s" % ("true" if fast else "false", self.g, self.sl(src)))
        self._def(self.sl(k), "p_of_rt %s" % r)
        self._op("roundtrip", {"op": "roundtrip", "src": src, "dst": k, "fast": fast}, "o_roundtrip %s" % r, (src,), k)
        return k

    def info(self, src, kind="info"):
        return self._op(kind, {"op": "info", "src": src}, "o_info %s %s" % (self.g, self.sl(src)), (src,))

    def named(self, src):
        return self._op("named", {"op": "named", "src": src}, "o_named %s %s" % (self.g, self.sl(src)), (src,))

    def distance(self, a, b, p):
        return self._op("distance", {"op": "distance", "a": a, "b": b, "p": f2b(p)},
                        "o_distance %s %s %s %s" % (self.g, self.sl(a), self.sl(b), coq_float(p)), (a, b))

    def eq(self, a, b):
        return self._op("eq", {"op": "eq", "a": a, "b": b}, "o_eq %s %s" % (self.sl(a), self.sl(b)), (a, b))

    def solve(self, method, iters, max_reg=0.0, threads=1, params=None, draws=None, yield_seed=0, record=False,
              kind="solve", multi_sched=None):
        """params: None | preset name | [a, b, g, w] floats; draws: None | {"chance": [[..]], "player": [[..]]}"""
        k = self.slot()
        sname = "s%d_%d" % (self.cid, k)
        presets = {"vanilla": 0, "lcfr": 1, "cfr_plus": 2, "dcfr": 3, "dcfr_prune": 4, "default": 5}
        if params is None:
            cp, jp = "(preset 5%N)", None
        elif isinstance(params, str):
            cp, jp = "(preset %d%%N)" % presets[params], params
        else:
            cp = "(params_new %s)" % " ".join(coq_float(x) for x in params)
            jp = [f2b(x) for x in params]
        if draws is None or "weighted_seed" in draws:
            cd = "no_draw"
        else:
            tab = lambda rows: coq_list([coq_list([coq_N(v) for v in r]) for r in rows])
            cd = "(table_draw %s %s)" % (tab(draws["chance"]), tab(draws["player"]))
        meth = {"full": "Full", "sampled": "Sampled", "external": "External"}[method]
        if multi_sched is None:
            self._def(sname, "f_solve %s %s %s %s %s %s %s" % (self.g, meth, cd, cp, coq_N(iters), coq_float(max_reg), coq_N(threads)))
        else:
            # the model of the multi-threaded solver itself, under schedule number multi_sched (Exec.f_solve_multi)
            self._def(sname, "f_solve_multi %s %s %s %s %s %s %s %s" % (self.g, meth, cd, cp, coq_N(iters), coq_float(max_reg),
                                                                         coq_N(threads), coq_N(multi_sched)))
        self._def(self.sl(k), "p_of_solved %s" % sname)
        js = {"op": "solve", "dst": k, "method": method, "iters": iters, "max_reg": f2b(max_reg),
              "threads": threads, "params": jp, "draws": draws, "yield_seed": yield_seed, "record": record}
        self._op(kind, js, "o_solved %s" % sname, (), k)
        return k

    def cancel(self, method, iters, params=None, draws=None):
        """model only: conditioning of the regret sums per iteration (Exec.o_cancel); the executor skips the op"""
        presets = {"vanilla": 0, "lcfr": 1, "cfr_plus": 2, "dcfr": 3, "dcfr_prune": 4, "default": 5}
        if params is None:
            cp = "(preset 5%N)"
        elif isinstance(params, str):
            cp = "(preset %d%%N)" % presets[params]
        else:
            cp = "(params_new %s)" % " ".join(coq_float(x) for x in params)
        if draws is None or "weighted_seed" in draws:
            cd = "no_draw"
        else:
            tab = lambda rows: coq_list([coq_list([coq_N(v) for v in r]) for r in rows])
            cd = "(table_draw %s %s)" % (tab(draws["chance"]), tab(draws["player"]))
        meth = {"full": "Full", "sampled": "Sampled", "external": "External"}[method]
        return self._op("cancel", {"op": "noop"}, "o_cancel %s %s %s %s %s" % (self.g, meth, cd, cp, coq_N(iters)))

    def raw(self, kind, js, defs, out, srcs=(), dst=None):
        """escape hatch used by the solver properties"""
        for name, body in defs:
            self._def(name, body)
        return self._op(kind, js, out, srcs, dst)

    # ---- rendering ----
    def case(self):
        # the executor hands the children of every node to from_root through an iterator whose size_hint style varies
        # with the case (exact / uninformative / bare lower bound / loose upper bound): the game must be the same
        c = {"id": self.cid, "tree": self.tree, "ops": self.ops,
             "iter_style": self.meta.get("iter_style", self.cid % 4 if isinstance(self.cid, int) else 0)}
        if self.meta.get("sweep") is not None:
            # a parameter sweep in one process (executor: run_sweep): build, solve with the production samplers, evaluate,
            # drop, next game; the result is one op holding [utility, regret one, regret two, regret] per game
            c["sweep"] = self.meta["sweep"]
        return c

    def coq(self):
        lines = ["Definition t%d : fgnode := %s." % (self.cid, self.meta.get("coq_tree_expr") or coq_tree(self.tree)),
                 "Definition %s := Eval vm_compute in (f_from_root t%d)." % (self.g, self.cid)]
        lines += self.defs
        lines.append("Eval vm_compute in (%s, (o_from_root %s, %s))." %
                     (coq_N(self.cid), self.g, coq_list(["(%s)" % o for o in self.outs])))
        return "\n".join(lines) + "\n"


# ---------- normalisation of implementation results ----------
def norm_impl_simple(o):
    """{"ok":..}|{"err":..}|{"panic":..}|{"skip":..} -> (status, payload)"""
    if "skip" in o:
        return ("skip", None)
    if "panic" in o:
        return ("panic", o["panic"])
    if "params_panic" in o:
        return ("params_panic", o["params_panic"])
    if "err" in o:
        return ("err", o["err"])
    if "ok" in o:
        return ("ok", o["ok"])
    return ("unknown", o)


def norm_model_simple(m, errs=None):
    tag = m["tag"]
    if tag == 0:
        return ("ok", m["args"])
    if tag == 1:
        code = m["args"][0]
        return ("err", errs[code] if errs else code)
    if tag == 2:
        return ("panic", None)
    if tag == 3:
        return ("skip", None)
    return ("unknown", m)


def _floats(bits):
    return [b2f(x) for x in bits]


def _canon_named_impl(players):
    out = []
    for pl in players:
        items = []
        for outer_len, name, lens, pairs in pl["items"]:
            items.append({"outer": outer_len, "name": name, "lens": lens,
                          "pairs": [[a, b2f(p)] for a, p in pairs]})
        out.append({"items": items, "final_len": pl["final_len"], "fused": pl["fused"]})
    return out


def _canon_named_model(args):
    out = []
    for pl in args:
        items_m, lens_m = pl
        items = []
        for (name, pairs), (outer, inner) in zip(items_m, lens_m):
            items.append({"outer": outer, "name": name, "lens": inner,
                          "pairs": [[a, float(p)] for a, p in pairs]})
        final_len = lens_m[-1][0] if lens_m else None
        ok_shape = len(lens_m) == len(items_m) + 1
        out.append({"items": items, "final_len": final_len, "fused": True, "shape": ok_shape})
    return out


def _split_named(items, is_multi):
    """multi-action items keep their order; single-action ones (HashMap order in the
    implementation) are compared as a set, so sort them by name."""
    multi = [it for it in items if is_multi(it)]
    single = sorted([it for it in items if not is_multi(it)], key=lambda it: it["name"])
    return multi, single


def compare_op(kind, impl, model, rel=1e-9, multi_names=None):
    """Returns None if implementation and model agree on this op, else a description."""
    if kind.endswith("_long"):
        kind = kind[:-5]
    si, pi = norm_impl_simple(impl)
    errs = SERR if kind in ("import", "roundtrip") else None
    sm, pm = norm_model_simple(model, errs)
    if sm == "skip" and kind not in ("solve", "named", "info", "import", "truncate", "roundtrip", "distance", "eq"):
        return None      # an operation that only the monitors judge (the model prints a placeholder)
    if kind == "solve":
        if si == "params_panic":
            return None if model["tag"] == 4 else "RegretParams::new panicked (%s) but the model accepts the tuple" % pi
        if model["tag"] == 4:
            return "model rejects the parameter tuple but RegretParams::new accepted it"
        if si == "err" and pi == "ThreadSpawnError":
            return None   # documented, OS dependent
        if si == "err":
            return None if sm == "err" else "impl ThreadOverflow, model %s" % sm
        if si == "ok" and sm == "ok":
            return deep_close(_floats(pi), [float(x) for x in pm[:3]], rel, "bounds")
    if si != sm:
        return "status impl=%s(%s) model=%s(%s)" % (si, pi if si != "ok" else "", sm, pm if sm != "ok" else "")
    if si in ("skip", "panic"):
        return None
    if si == "err":
        return None if pi == pm else "error kind impl=%s model=%s" % (pi, pm)
    if kind == "num_infosets":
        return None  # handled by caller (model returns plain number)
    if kind in ("import", "truncate"):
        return None
    if kind == "roundtrip":
        return None
    if kind == "info":
        return deep_close(_floats(pi), [float(x) for x in pm], rel, "info")
    if kind == "distance":
        return deep_close(_floats(pi), [float(x) for x in pm], rel, "distance")
    if kind == "presets":
        return deep_close([[b2f(x) for x in r] for r in pi], [[float(x) for x in r] for r in pm[0]], 0.0, "presets")
    if kind == "eq":
        return None if bool(pi) == bool(pm[0]) else "eq impl=%s model=%s" % (pi, pm[0])
    if kind == "named":
        ci = _canon_named_impl(pi)
        cm = _canon_named_model(pm)
        for pl in (0, 1):
            names = multi_names[pl] if multi_names else None
            im = lambda it: (it["name"] in names) if names is not None else (len(it["lens"]) != 2 or True)
            if names is None:
                # without knowledge of the tables compare everything sorted by name
                a = sorted(ci[pl]["items"], key=lambda it: it["name"])
                b = sorted(cm[pl]["items"], key=lambda it: it["name"])
                for x in a:
                    x.pop("outer")
                for x in b:
                    x.pop("outer")
                d = deep_close(a, b, rel, "named[%d]" % pl)
            else:
                am, as_ = _split_named(ci[pl]["items"], im)
                bm, bs = _split_named(cm[pl]["items"], im)
                # outer lengths must count down over the *sequence*, compare them positionally
                d = deep_close([it["outer"] for it in ci[pl]["items"]],
                               [it["outer"] for it in cm[pl]["items"]], rel, "named[%d].outer_lens" % pl)
                for x in am + as_ + bm + bs:
                    x.pop("outer")
                d = d or deep_close(am, bm, rel, "named[%d].multi" % pl) \
                    or deep_close(as_, bs, rel, "named[%d].single" % pl)
            if d:
                return d
            if ci[pl]["final_len"] != cm[pl]["final_len"]:
                return "named[%d].final_len impl=%s model=%s" % (pl, ci[pl]["final_len"], cm[pl]["final_len"])
            if not ci[pl]["fused"]:
                return "named[%d]: iterator yielded again after None" % pl
        return None
    return None
