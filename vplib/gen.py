"""Seeded generators: game trees (valid and invalid), profiles, named strategies.

Trees are JSON-able dicts (floats as u64 bit patterns):
  {"t": bits} | {"c": None|int, "o": [[wbits, tree]...]} | {"p": 1|2, "i": int, "a": [[label, tree]...]}
"""
import math
import random

from .common import f2b, b2f


class TreeGen:
    """Random perfect-recall games with deliberately frequent shared infosets.

    Nodes of a player may share an infoset only when the player's previous
    (multi-action infoset, action) pair agrees - exactly the library contract -
    so every generated tree is valid by construction."""

    def __init__(self, rng, max_nodes=40, max_depth=6, max_actions=3, p_share=0.5,
                 payoff_scale=10.0, chance_share=0.5, single_rate=0.12, int_payoffs=False,
                 label_space=1000, wide=False):
        self.r = rng
        self.max_nodes = max_nodes
        self.max_depth = max_depth
        self.max_actions = max_actions
        self.p_share = p_share
        self.payoff_scale = payoff_scale
        self.chance_share = chance_share
        self.single_rate = single_rate
        self.int_payoffs = int_payoffs
        self.label_space = label_space
        self.wide = wide
        self.nodes = 0
        self.pools = {}            # (player, prev pair) -> list of (info, actions)
        self.single_pool = {1: [], 2: []}   # (info, action)
        self.used_names = {1: set(), 2: set()}
        self.chance_pool = {}      # n outcomes -> list of (info, weights)
        self.used_chance = set()
        self.n_shared = 0
        self.n_chance_shared = 0
        self.n_single = 0

    def fresh_name(self, pl):
        # rejection sampling, but never for ever: a tree that needs more names than the label space offers (or nearly
        # as many) gets names beyond it
        for _ in range(200):
            n = self.r.randrange(self.label_space)
            if n not in self.used_names[pl]:
                self.used_names[pl].add(n)
                return n
        n = self.label_space + len(self.used_names[pl])
        while n in self.used_names[pl]:
            n += 1
        self.used_names[pl].add(n)
        return n

    def payoff(self):
        if self.int_payoffs:
            return float(self.r.randint(-5, 5))
        return self.r.uniform(-self.payoff_scale, self.payoff_scale)

    def weight(self):
        c = self.r.random()
        if c < 0.15:
            return self.r.uniform(1e-4, 1e-3)   # rare outcome
        if c < 0.3:
            return float(self.r.randint(1, 5))
        return self.r.uniform(0.05, 3.0)

    def node(self, depth, prev):
        self.nodes += 1
        budget_left = self.max_nodes - self.nodes
        p_term = 0.15 + 0.85 * (depth / self.max_depth) ** 2
        if depth >= self.max_depth or budget_left <= 0 or self.r.random() < p_term * (0.3 if depth < 2 else 1.0):
            return {"t": f2b(self.payoff())}
        c = self.r.random()
        if c < 0.25:
            return self.chance(depth, prev)
        return self.player(1 if c < 0.625 else 2, depth, prev)

    def chance(self, depth, prev):
        r = self.r
        n = 1 if r.random() < self.single_rate else r.randint(2, self.max_actions)
        info = None
        weights = None
        if n >= 2 and r.random() < self.chance_share:
            pool = self.chance_pool.setdefault(n, [])
            if pool and r.random() < 0.6:
                info, base = r.choice(pool)
                scale = 2.0 ** r.randint(-3, 3)     # exact rescaling
                weights = [w * scale for w in base]
                self.n_chance_shared += 1
            else:
                info = r.randrange(self.label_space)
                while info in self.used_chance:
                    info = r.randrange(self.label_space)
                self.used_chance.add(info)
                weights = [self.weight() for _ in range(n)]
                pool.append((info, weights))
        elif n == 1 and r.random() < 0.5:
            # single-outcome nodes may carry any infoset: they are transparent
            info = r.randrange(self.label_space)
        if weights is None:
            weights = [self.weight() for _ in range(n)]
            if n >= 2 and r.random() < 0.2:
                # weights written as probabilities rounded to a few digits: they sum to one only approximately
                tot = sum(weights)
                d = r.choice([7, 7, 8, 6, 3])
                weights = [max(round(w / tot, d), 10.0 ** -d) for w in weights]
        return {"c": info, "o": [[f2b(w), self.node(depth + 1, prev)] for w in weights]}

    def player(self, pl, depth, prev):
        r = self.r
        if r.random() < self.single_rate:
            self.n_single += 1
            if self.single_pool[pl] and r.random() < 0.5:
                info, act = r.choice(self.single_pool[pl])
            else:
                info, act = self.fresh_name(pl), r.randrange(self.label_space)
                self.single_pool[pl].append((info, act))
            return {"p": pl, "i": info, "a": [[act, self.node(depth + 1, prev)]]}
        key = (pl, prev[pl - 1])
        pool = self.pools.setdefault(key, [])
        if pool and r.random() < self.p_share:
            info, acts = r.choice(pool)
            self.n_shared += 1
        else:
            na = r.randint(2, self.max_actions if not self.wide else max(2, self.max_actions))
            acts = r.sample(range(self.label_space), na)
            info = self.fresh_name(pl)
            pool.append((info, acts))
        kids = []
        for ai, a in enumerate(acts):
            nprev = list(prev)
            nprev[pl - 1] = (info, ai)
            kids.append([a, self.node(depth + 1, tuple(nprev))])
        return {"p": pl, "i": info, "a": kids}

    def tree(self):
        return self.node(0, (None, None))


def gen_tree(rng, **kw):
    """A valid tree with at least one decision; retries tiny ones."""
    for _ in range(50):
        g = TreeGen(rng, **kw)
        t = g.tree()
        st = tree_stats(t)
        if st["players"] >= 1:
            st["shared_uses"] = g.n_shared
            st["chance_shared_uses"] = g.n_chance_shared
            return t, st
    return t, st


def tree_stats(t):
    st = {"nodes": 0, "terminals": 0, "chance": 0, "players": 0, "depth": 0, "single": 0}

    def go(n, d):
        st["nodes"] += 1
        st["depth"] = max(st["depth"], d)
        if "t" in n:
            st["terminals"] += 1
        elif "o" in n:
            st["chance"] += 1
            for _, c in n["o"]:
                go(c, d + 1)
        else:
            st["players"] += 1
            if len(n["a"]) == 1:
                st["single"] += 1
            for _, c in n["a"]:
                go(c, d + 1)
    go(t, 0)
    return st


def infosets_of(t):
    """Multi-action infosets per player in DFS first-visit order (the library's index
    order), and single-action infosets: returns ({1: [(info, [acts])], 2: [...]},
    {1: {info: act}, 2: {...}})."""
    multi = {1: [], 2: []}
    seen = {1: set(), 2: set()}
    singles = {1: {}, 2: {}}

    def go(n):
        if "t" in n:
            return
        if "o" in n:
            for _, c in n["o"]:
                go(c)
            return
        pl = n["p"]
        if len(n["a"]) == 1:
            singles[pl].setdefault(n["i"], n["a"][0][0])
        elif n["i"] not in seen[pl]:
            seen[pl].add(n["i"])
            multi[pl].append((n["i"], [a for a, _ in n["a"]]))
        for _, c in n["a"]:
            go(c)
    go(t)
    return multi, singles


def random_row(rng, n, style=None):
    """A probability row with many mantissa bits; styles add zeros / purity / tiny entries."""
    style = style or rng.choice(["dirichlet", "dirichlet", "pure", "zeros", "tiny", "uniform"])
    if style == "pure":
        k = rng.randrange(n)
        return [1.0 if i == k else 0.0 for i in range(n)]
    if style == "uniform":
        return [1.0 / n] * n
    w = [rng.expovariate(1.0) + 1e-12 for _ in range(n)]
    if style == "zeros" and n > 1:
        for i in rng.sample(range(n), rng.randint(1, n - 1)):
            w[i] = 0.0
    if style == "tiny" and n > 1:
        # down to far below machine epsilon (but positive): such an action is still in the support
        w[rng.randrange(n)] *= 10.0 ** -rng.choice([3, 6, 9, 12, 17, 20, 30, 100, 300])
    s = sum(w)
    return [x / s for x in w]


def random_named(rng, t, style=None, scale=True):
    """A valid named strategy (weights, possibly unnormalised) for tree t:
    [player1, player2], each [[info, [[act, wbits]...]]...]; plus the intended rows."""
    multi, singles = infosets_of(t)
    out = []
    for pl in (1, 2):
        ents = []
        for info, acts in multi[pl]:
            row = random_row(rng, len(acts), style)
            k = rng.choice([1.0, 1.0, 2.0, 0.5, 3.0, 7.25]) if scale else 1.0
            pairs = [[a, f2b(p * k)] for a, p in zip(acts, row)]
            if rng.random() < 0.3:
                pairs = [ap for ap in pairs if b2f(ap[1]) > 0.0] or pairs  # omit zeros
            if rng.random() < 0.5:
                rng.shuffle(pairs)
            ents.append([info, pairs])
        for info, act in singles[pl].items():
            ents.append([info, [[act, f2b(rng.choice([1.0, 0.0, 2.5]))]]])
        rng.shuffle(ents)
        out.append(ents)
    return out
