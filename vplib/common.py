"""Shared helpers: float <-> bits, paths, comparison with tolerance."""
import math
import os
import struct

VERIF = os.path.dirname(os.path.dirname(os.path.abspath(__file__)))
REPO = os.environ.get("VERIF_REPO", "/repo")
CACHE = os.path.join(VERIF, ".cache")
COQDIR = os.path.join(VERIF, "coq")
WORK = os.path.join(CACHE, "work")


def f2b(x):
    return struct.unpack("<Q", struct.pack("<d", float(x)))[0]


def b2f(b):
    return struct.unpack("<d", struct.pack("<Q", int(b)))[0]


def coq_float(x):
    """Exact Coq literal (float_scope) for a Python float."""
    x = float(x)
    if math.isnan(x):
        return "nan"
    if math.isinf(x):
        return "infinity" if x > 0 else "neg_infinity"
    if x == 0.0:
        return "(-0)" if math.copysign(1.0, x) < 0 else "0"
    h = x.hex()  # e.g. -0x1.8000000000000p+1
    return "(%s)" % h if x < 0 else h


def next_up(x):
    return math.nextafter(x, math.inf)


def next_down(x):
    return math.nextafter(x, -math.inf)


def close(a, b, rel=1e-9, abs_=0.0):
    """Float agreement rule of DESIGN 4.3: NaN = NaN, infinities exact, else relative."""
    if isinstance(a, float) or isinstance(b, float):
        a = float(a)
        b = float(b)
        if math.isnan(a) or math.isnan(b):
            return math.isnan(a) and math.isnan(b)
        if math.isinf(a) or math.isinf(b):
            return a == b
        return abs(a - b) <= max(abs_, rel * max(1.0, abs(a), abs(b)))
    return a == b


def deep_close(a, b, rel=1e-9, path=""):
    """Structural comparison; returns None when equal else a description of the first difference."""
    if isinstance(a, (list, tuple)) and isinstance(b, (list, tuple)):
        if len(a) != len(b):
            return "%s: length %d vs %d" % (path, len(a), len(b))
        for i, (x, y) in enumerate(zip(a, b)):
            d = deep_close(x, y, rel, "%s[%d]" % (path, i))
            if d:
                return d
        return None
    if isinstance(a, dict) and isinstance(b, dict):
        if set(a) != set(b):
            return "%s: keys %s vs %s" % (path, sorted(a), sorted(b))
        for k in a:
            d = deep_close(a[k], b[k], rel, "%s.%s" % (path, k))
            if d:
                return d
        return None
    if isinstance(a, bool) or isinstance(b, bool):
        return None if a == b else "%s: %r vs %r" % (path, a, b)
    if isinstance(a, (int, float)) and isinstance(b, (int, float)):
        if isinstance(a, int) and isinstance(b, int):
            return None if a == b else "%s: %r vs %r" % (path, a, b)
        return None if close(float(a), float(b), rel) else "%s: %r vs %r" % (path, a, b)
    return None if a == b else "%s: %r vs %r" % (path, a, b)
