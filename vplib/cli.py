"""The shipped `cfr` binary: file emitters (JSON DSL and Gambit .efg), runner, and the file-level game
semantics used by the CLI properties C15-C17.

A *file game* is the game exactly as written in a file, independent of the crate:
  ("t", outcome_id, (p1, p2))
  ("c", infoset_no, [(name, Fraction prob, child)...], outcome_id, pays|None)
  ("p", player 1|2, infoset_no, infoset_name|None, [(action name, child)...], outcome_id, pays|None)
with payoffs as Fractions.  JSON games use the raw tree dicts of vplib.gen with string names.
"""
import json
import math
import os
import subprocess
from fractions import Fraction

from .common import f2b, b2f, WORK
from . import harness


# ---------------------------------------------------------------- names
# Names are an order-preserving encoding of the numeric labels (the readers sort by name; the model sorts by label).
# With FANCY set, the five "digits" after the prefix come from an alphabet of awkward characters in code-point order
# (= UTF-8 byte order = Rust's String order): space, quote, backslash, both cases, non-ASCII, an astral character.
FANCY = None
ALPHABET = [" ", "\"", "-", "0", "9", "A", "Z", "\\", "a", "z", "\u00e9", "\u4e2d", "\U0001F600"]
assert ALPHABET == sorted(ALPHABET)


def _enc(prefix, i):
    if FANCY is None:
        return "%s%05d" % (prefix, i)
    n, out = i, ""
    for _ in range(5):
        out = FANCY[n % len(FANCY)] + out
        n //= len(FANCY)
    return prefix + out


def iname(i):
    return _enc("I", i)


def aname(a):
    return _enc("a", a)


def cname(c):
    return _enc("C", c)


# ---------------------------------------------------------------- JSON DSL
def tree_to_json(t, rng=None, outcome_names=None):
    """raw tree dict -> JSON DSL object.  Chance outcomes get positional names (the DSL keeps
    them in a map, i.e. sorted by name), so the order of the dict's outcome list is preserved
    only if the names sort in that order: we use o000, o001, ..."""
    if "t" in t:
        return {"terminal": b2f(t["t"])}
    if "o" in t:
        outs = {}
        for k, (w, c) in enumerate(t["o"]):
            outs["o%03d" % k] = {"prob": b2f(w), "state": tree_to_json(c, rng)}
        d = {"outcomes": outs}
        if t.get("c") is not None:
            d["infoset"] = cname(t["c"])
        return {"chance": d}
    acts = {}
    for a, c in t["a"]:
        acts[aname(a)] = tree_to_json(c, rng)
    return {"player": {"player_one": t["p"] == 1, "infoset": iname(t["i"]), "actions": acts}}


def sort_tree(t):
    """the game the JSON reader builds: actions in name order (BTreeMap)"""
    if "t" in t:
        return t
    if "o" in t:
        return {"c": t.get("c"), "o": [[w, sort_tree(c)] for w, c in t["o"]]}
    acts = sorted(t["a"], key=lambda ac: aname(ac[0]))
    return {"p": t["p"], "i": t["i"], "a": [[a, sort_tree(c)] for a, c in acts]}


def has_dup_actions(t):
    if "t" in t:
        return False
    if "o" in t:
        return any(has_dup_actions(c) for _, c in t["o"])
    names = [a for a, _ in t["a"]]
    return len(set(names)) != len(names) or any(has_dup_actions(c) for _, c in t["a"])


# ---------------------------------------------------------------- Gambit
def frac_str(x, rng=None):
    x = Fraction(x)
    if x.denominator == 1:
        return str(x.numerator)
    if rng is not None and rng.random() < 0.5:
        # decimal form when exact
        d = x.denominator
        while d % 2 == 0:
            d //= 2
        while d % 5 == 0:
            d //= 5
        if d == 1:
            s = "%.12f" % float(x)
            if Fraction(s) == x:
                return s.rstrip("0")
    return "%d/%d" % (x.numerator, x.denominator)


def esc(s):
    return s.replace("\\", "\\\\").replace('"', '\\"')


def efg_text(fg, players=("one", "two"), rng=None, title="generated"):
    lines = ['EFG 2 R "%s" { %s }' % (esc(title), " ".join('"%s"' % esc(p) for p in players))]

    def pays(p):
        sep = ", " if (rng is None or rng.random() < 0.5) else " "
        return "{ " + sep.join(frac_str(x, rng) for x in p) + " }"

    def go(n):
        if n[0] == "t":
            _, oid, p = n
            lines.append('t "" %d "" %s' % (oid, pays(p)) if (rng and rng.random() < 0.5) else 't "" %d %s' % (oid, pays(p)))
        elif n[0] == "c":
            _, info, acts, oid, p = n
            al = " ".join('"%s" %s' % (esc(a), frac_str(pr)) for a, pr, _ in acts)
            tail = "%d" % oid + ((" " + pays(p)) if p is not None else "")
            lines.append('c "" %d "" { %s } %s' % (info, al, tail))
            for _, _, c in acts:
                go(c)
        else:
            _, pl, info, name, acts, oid, p = n
            al = " ".join('"%s"' % esc(a) for a, _ in acts)
            nm = (' "%s"' % esc(name)) if name is not None else ""
            tail = "%d" % oid + ((' "" ' + pays(p)) if p is not None else "")
            lines.append('p "" %d %d%s { %s } %s' % (pl, info, nm, al, tail))
            for _, c in acts:
                go(c)
    go(fg)
    return "\n".join(lines) + "\n"


class FileGameBuilder:
    """raw tree (valid by construction, float payoffs) -> Gambit file game with constant pair sum `c`,
    interior payoffs, shared outcomes, named and unnamed infosets, unsorted action lists."""

    def __init__(self, rng, c=None, interior=True, unnamed_rate=0.3, shuffle=True, denom=None):
        self.r = rng
        # the constant ranges from far below 0.1 % of the payoff spread (1/4000) to far above it (10^6)
        self.c = (Fraction(rng.choice([0, 0, 1, 10, -3, 7])) / rng.choice([1, 1, 2, 4]) if rng.random() < 0.6 else
                  Fraction(rng.choice([1, -1, 3, 7]), rng.choice([100, 1000, 4000])) if rng.random() < 0.7 else
                  Fraction(rng.choice([1000, -5000, 10 ** 6]))) if c is None else Fraction(c)
        self.interior = interior
        self.unnamed_rate = unnamed_rate
        self.shuffle = shuffle
        self.outcomes = {}        # (p1, p2) -> id
        self.next_out = 1
        self.info_no = {1: {}, 2: {}}   # raw label -> (number, name|None)
        self.chance_no = {}
        self.next_chance = 1
        self.denom = denom or rng.choice([4, 10, 100])
        self.inc_pool = []
        self.written = set()     # outcome ids whose payoffs have been written at some node
        self.leaf_pairs = []     # payoff pairs of the leaves built so far

    def outcome(self, pair, fresh=False):
        if pair in self.outcomes and not fresh:
            return self.outcomes[pair]
        oid = self.next_out
        self.next_out += 1
        self.outcomes.setdefault(pair, oid)
        return oid

    def info(self, pl, label):
        tab = self.info_no[pl]
        if label not in tab:
            no = len(tab) + 1 + self.r.choice([0, 0, 10])
            while any(no == n for n, _ in tab.values()):
                no += 1
            name = None if self.r.random() < self.unnamed_rate else iname(label)
            tab[label] = (no, name)
        return tab[label]

    def build(self, t, acc=(Fraction(0), Fraction(0))):
        r = self.r
        if "t" in t:
            u1 = Fraction(round(b2f(t["t"]) * self.denom), self.denom)
            # the terminal completes the pair to the constant: (u1 - acc1, c - u1 - acc2)
            pair = (u1 - acc[0], self.c - u1 - acc[1])
            oid = self.outcome(pair)
            self.written.add(oid)
            self.leaf_pairs.append(pair)
            return ("t", oid, pair)
        inc = None
        if self.interior and r.random() < 0.3:
            # interior payoffs need not be zero-sum: the terminals complete every path to the constant
            if self.leaf_pairs and r.random() < 0.25:
                a, b = r.choice(self.leaf_pairs)     # the very outcome of some leaf, attached to an interior node as well
            elif self.inc_pool and r.random() < 0.7:
                a, b = r.choice(self.inc_pool)       # reuse: the same outcome at several nodes
            else:
                a = Fraction(r.randint(-8, 8), r.choice([1, 2, 4]))
                b = -a if r.random() < 0.4 else Fraction(r.randint(-8, 8), r.choice([1, 2, 4]))
                self.inc_pool.append((a, b))
            inc = (a, b)
            acc = (acc[0] + a, acc[1] + b)
        oid = self.outcome(inc, fresh=r.random() < 0.2) if inc is not None else 0
        shown = inc
        if inc is not None:
            # an outcome whose payoffs were already written at another node may be cited by number only
            if oid in self.written and r.random() < 0.6:
                shown = None
            else:
                self.written.add(oid)
        if "o" in t:
            ws = [b2f(w) for w, _ in t["o"]]
            # rational probabilities proportional to rounded weights, summing to exactly one
            ints = [max(1, round(w / sum(ws) * 120)) for w in ws]
            tot = sum(ints)
            probs = [Fraction(i, tot) for i in ints]
            key = t.get("c")
            if key is not None and len(t["o"]) >= 2:
                if key not in self.chance_no:
                    self.chance_no[key] = (self.next_chance, probs)
                    self.next_chance += 1
                no, probs = self.chance_no[key]
            else:
                no = self.next_chance
                self.next_chance += 1
            acts = [("o%03d" % k, p, self.build(c, acc)) for k, (p, (_, c)) in enumerate(zip(probs, t["o"]))]
            return ("c", no, acts, oid, shown)
        pl = t["p"]
        no, name = self.info(pl, t["i"])
        acts = [(aname(a), self.build(c, acc)) for a, c in t["a"]]
        return ("p", pl, no, name, acts, oid, shown)


def shuffle_presentation(fg, rng, orders=None):
    """the same game with action lists written in a different order (per infoset, or per node of an infoset)"""
    orders = {} if orders is None else orders
    if fg[0] == "t":
        return fg
    if fg[0] == "c":
        _, info, acts, oid, p = fg
        key = ("c", info, tuple(a for a, _, _ in acts))
        if key not in orders:
            perm = list(range(len(acts)))
            rng.shuffle(perm)
            orders[key] = perm
        acts = [acts[k] for k in orders[key]]
        return ("c", info, [(a, pr, shuffle_presentation(c, rng, orders)) for a, pr, c in acts], oid, p)
    _, pl, info, name, acts, oid, p = fg
    key = ("p", pl, info)
    if orders.setdefault("__per_node__", rng.random() < 0.5):
        # half of the files list the actions of one infoset in a different order at each of its nodes
        orders["__count__"] = orders.get("__count__", 0) + 1
        key = ("p", pl, info, orders["__count__"])
    if key not in orders:
        perm = list(range(len(acts)))
        rng.shuffle(perm)
        orders[key] = perm
    acts = [acts[k] for k in orders[key]]
    return ("p", pl, info, name, [(a, shuffle_presentation(c, rng, orders)) for a, c in acts], oid, p)


def partial_names(fg, rng):
    """the same file with the name of an infoset written at only one of its nodes (the first, the last or some other
    one in the order of the file) and left empty at the others - as hand-written files do"""
    count = {}

    def scan(n):
        if n[0] == "t":
            return
        if n[0] == "c":
            for _, _, c in n[2]:
                scan(c)
            return
        _, pl, info, name, acts, _, _ = n
        if name is not None:
            count[(pl, info)] = count.get((pl, info), 0) + 1
        for _, c in acts:
            scan(c)
    scan(fg)
    keep = {}
    for key, k in count.items():
        if k >= 2 and rng.random() < 0.6:
            keep[key] = rng.choice([0, 0, k - 1, rng.randrange(k)])
    seen = {}

    def go(n):
        if n[0] == "t":
            return n
        if n[0] == "c":
            _, info, acts, oid, p = n
            return ("c", info, [(a, pr, go(c)) for a, pr, c in acts], oid, p)
        _, pl, info, name, acts, oid, p = n
        key = (pl, info)
        if name is not None and key in keep:
            idx = seen.get(key, 0)
            seen[key] = idx + 1
            if idx != keep[key]:
                name = None
        return ("p", pl, info, name, [(a, go(c)) for a, c in acts], oid, p)
    return go(fg)


# ---------------------------------------------------------------- file-level semantics
def fg_final_names(fg):
    """infoset number -> printed name per player: the given name, else the number as a string"""
    names = {1: {}, 2: {}}
    seen = {1: set(), 2: set()}

    def go(n):
        if n[0] == "t":
            return
        if n[0] == "c":
            for _, _, c in n[2]:
                go(c)
            return
        _, pl, info, name, acts, _, _ = n
        seen[pl].add(info)
        if name is not None:
            names[pl].setdefault(info, name)
        for _, c in acts:
            go(c)
    go(fg)
    for pl in (1, 2):
        for info in seen[pl]:
            names[pl].setdefault(info, str(info))
    return names


def fg_outcomes(fg):
    tab = {}

    def go(n):
        if n[0] == "t":
            tab[n[1]] = n[2]
            return
        oid, p = n[-2], n[-1]
        if p is not None:
            tab[oid] = p
        for e in n[2] if n[0] == "c" else n[4]:
            go(e[-1])
    go(fg)
    return tab


def fg_to_own_tree(fg, player=1):
    """the two-player game as written: raw tree dict (labels = printed names as strings) whose terminal
    payoff is `player`'s own payoff summed along the path; also the set of pair sums seen."""
    names = fg_final_names(fg)
    outs = fg_outcomes(fg)
    sums = []

    def go(n, acc):
        if n[0] == "t":
            p = outs[n[1]]
            tot = (acc[0] + p[0], acc[1] + p[1])
            sums.append(tot[0] + tot[1])
            return {"tq": tot}
        oid = n[-2]
        if oid != 0:
            p = outs[oid]
            acc = (acc[0] + p[0], acc[1] + p[1])
        if n[0] == "c":
            return {"c": n[1], "o": [[pr, go(c, acc)] for _, pr, c in n[2]]}
        _, pl, info, _, acts, _, _ = n
        return {"p": pl, "i": names[pl][info], "a": [[a, go(c, acc)] for a, c in acts]}
    return go(fg, (Fraction(0), Fraction(0))), sums


def fg_to_crate_tree(fg, label_of):
    """what gambit.rs hands to from_root (mirrors JoinedNode::into_game_node): actions sorted by name,
    chance outcomes by (name, prob), payoff = cumulative player-one payoff - sum, where
    sum = min + (max - min)/2 over the terminals' (one + (two-one)/2), all in binary64.
    label_of(kind, string) -> int label.  Returns (tree dict with float bits, sum)."""
    outs = {k: (float(v[0]), float(v[1])) for k, v in fg_outcomes(fg).items()}
    names = fg_final_names(fg)
    lo, hi = math.inf, -math.inf

    def scan(n, cum):
        nonlocal lo, hi
        if n[0] == "t":
            o = outs[n[1]]
            one, two = cum[0] + o[0], cum[1] + o[1]
            s = one + (two - one) / 2.0
            lo, hi = min(lo, s), max(hi, s)
            return
        if n[-2] != 0:
            o = outs[n[-2]]
            cum = (cum[0] + o[0], cum[1] + o[1])
        for e in n[2] if n[0] == "c" else n[4]:
            scan(e[-1], cum)
    scan(fg, (0.0, 0.0))
    total = lo + (hi - lo) / 2.0

    def go(n, cum):
        if n[0] == "t":
            return {"t": f2b(cum + outs[n[1]][0] - total)}
        pay = 0.0 if n[-2] == 0 else outs[n[-2]][0]
        if n[0] == "c":
            acts = sorted(n[2], key=lambda e: (e[0], float(e[1])))
            return {"c": n[1], "o": [[f2b(float(pr)), go(c, cum + pay)] for _, pr, c in acts]}
        _, pl, info, _, acts, _, _ = n
        acts = sorted(acts, key=lambda e: e[0])
        return {"p": pl, "i": label_of("i%d" % pl, names[pl][info]),
                "a": [[label_of("a", a), go(c, cum + pay)] for a, c in acts]}
    return go(fg, 0.0), total


class Labels:
    """order-preserving is not needed for gambit (the tree is already sorted); just a bijection"""

    def __init__(self):
        self.tab = {}
        self.back = {}

    def __call__(self, kind, s):
        key = (kind, s)
        if key not in self.tab:
            self.tab[key] = len(self.tab) + 1
            self.back[(kind, self.tab[key])] = s
        return self.tab[key]


# exact evaluation of printed strategies on a file-level tree (Fractions/floats mixed -> float)
def eval_own(tree, strat):
    """expected own payoff pair under strat = {1: {info: {action: p}}, 2: {...}} (names as printed)"""
    def go(n):
        if "tq" in n:
            return (float(n["tq"][0]), float(n["tq"][1]))
        if "o" in n:
            a = b = 0.0
            for pr, c in n["o"]:
                x, y = go(c)
                a += float(pr) * x
                b += float(pr) * y
            return (a, b)
        row = strat[n["p"]].get(n["i"], {})
        if len(n["a"]) == 1 and n["a"][0][0] not in row:
            row = {n["a"][0][0]: 1.0}
        a = b = 0.0
        for act, c in n["a"]:
            p = row.get(act, 0.0)
            if p > 0.0:
                x, y = go(c)
                a += p * x
                b += p * y
        return (a, b)
    return go(tree)


def best_response_own(tree, strat, pl):
    """value of the best response of `pl` (own payoff) against strat, by the grouped recursion:
    expand chance/opponent nodes, group own nodes by infoset (perfect recall: all nodes of an infoset
    reachable together appear in the same group), pick the best action per infoset."""
    def best(items):
        total = 0.0
        groups = {}
        stack = list(items)
        while stack:
            n, w = stack.pop()
            if "tq" in n:
                total += w * float(n["tq"][pl - 1])
            elif "o" in n:
                for pr, c in n["o"]:
                    stack.append((c, w * float(pr)))
            elif n["p"] != pl:
                row = strat[n["p"]].get(n["i"], {})
                if len(n["a"]) == 1:
                    stack.append((n["a"][0][1], w))
                else:
                    for act, c in n["a"]:
                        p = row.get(act, 0.0)
                        if p > 0.0:
                            stack.append((c, w * p))
            elif len(n["a"]) == 1:
                stack.append((n["a"][0][1], w))
            else:
                groups.setdefault(n["i"], []).append((n, w))
        for info, members in groups.items():
            acts = [a for a, _ in members[0][0]["a"]]
            vals = []
            for a in acts:
                vals.append(best([(dict(m["a"])[a] if False else next(c for aa, c in m["a"] if aa == a), w) for m, w in members]))
            total += max(vals)
        return total
    return best([(tree, 1.0)])


# ---------------------------------------------------------------- running the binary
def run_cli(args, text=None, path_text=None, ext=".json", out_file=False, timeout=120, name="cli", prefill=None):
    """args: list of extra options.  text -> stdin; path_text -> written to a file passed with -i.
    Returns dict(exit, stdout, stderr, outfile)."""
    exe = harness.build_cli()
    os.makedirs(WORK, exist_ok=True)
    cmd = [exe] + list(args)
    inp = None
    files = []
    if path_text is not None:
        p = os.path.join(WORK, "%s_in%s" % (name, ext))
        with open(p, "w", encoding="utf-8") as f:
            f.write(path_text)
        files.append(p)
        cmd += ["-i", p]
    else:
        inp = text
    op = None
    if out_file:
        op = os.path.join(WORK, "%s_out.json" % name)
        if os.path.exists(op):
            os.remove(op)
        if prefill is not None:
            # the output path already exists (e.g. the result of an earlier, larger run)
            with open(op, "w", encoding="utf-8") as f:
                f.write(prefill)
        files.append(op)
        cmd += ["-o", op]
    try:
        p = subprocess.run(cmd, input=inp, capture_output=True, text=True, timeout=timeout, encoding="utf-8", errors="replace")
        err = p.stderr if len(p.stderr) <= 4000 else p.stderr[:2000] + "\n...[cut]...\n" + p.stderr[-2000:]
        res = {"exit": p.returncode, "stdout": p.stdout, "stderr": err}
    except subprocess.TimeoutExpired:
        res = {"exit": "timeout", "stdout": "", "stderr": ""}
    res["outfile"] = None
    if op and os.path.exists(op):
        res["outfile"] = open(op, encoding="utf-8", errors="replace").read()
    for f in files:
        if os.path.exists(f):
            os.remove(f)
    res["cmd"] = " ".join(cmd[1:])
    return res


def parse_output(text):
    try:
        o = json.loads(text)
    except Exception as e:
        return None, "stdout is not one JSON object: %s" % e
    need = ["regret", "player_one_utility", "player_two_utility", "player_one_regret", "player_two_regret",
            "player_one_strategy", "player_two_strategy"]
    for k in need:
        if k not in o:
            return None, "missing key %s" % k
    return o, None


# ---------------------------------------------------------------- Coq rendering of parsed files (theories/Cli.v)
def gambit_ranks(fg):
    """every string the Gambit reader can use as an infoset or action name -> its rank in byte order
    (sorting by name = sorting by rank); includes the decimal strings of all infoset numbers"""
    strs = set()
    nums = set()

    def go(n):
        if n[0] == "t":
            return
        if n[0] == "c":
            for a, _, c in n[2]:
                strs.add(a)
                go(c)
            return
        _, pl, info, name, acts, _, _ = n
        nums.add(info)
        strs.add(str(info))
        if name is not None:
            strs.add(name)
        for a, c in acts:
            strs.add(a)
            go(c)
    go(fg)
    order = sorted(strs, key=lambda x: x.encode())
    rank = {x: k + 1 for k, x in enumerate(order)}
    return rank, sorted(nums)


def tofloat(x):
    """BigRational::to_f64: values beyond the binary64 range become +-inf"""
    try:
        return float(x)
    except OverflowError:
        return math.inf if x > 0 else -math.inf


def coq_enode(fg, rank):
    from .common import coq_float as _cf
    from .coqrun import coq_N, coq_list

    def coq_float(x):
        return _cf(x)

    float = tofloat

    def pay(p):
        return "None" if p is None else "(Some (%s, %s))" % (coq_float(float(p[0])), coq_float(float(p[1])))

    def go(n):
        if n[0] == "t":
            return "(ET %s %s %s)" % (coq_N(n[1]), coq_float(float(n[2][0])), coq_float(float(n[2][1])))
        if n[0] == "c":
            acts = coq_list(["(%s, %s, %s)" % (coq_N(rank[a]), coq_float(float(pr)), go(c)) for a, pr, c in n[2]])
            return "(EC %s %s %s %s)" % (coq_N(n[1]), acts, coq_N(n[3]), pay(n[4]))
        _, pl, info, name, acts, oid, p = n
        al = coq_list(["(%s, %s)" % (coq_N(rank[a]), go(c)) for a, c in acts])
        nm = "None" if name is None else "(Some %s)" % coq_N(rank[name])
        return "(EP %s %s %s %s %s %s)" % ("true" if pl == 1 else "false", coq_N(info), nm, al, coq_N(oid), pay(p))
    return go(fg)


def coq_gambit_tree_expr(fg):
    from .coqrun import coq_N, coq_list
    rank, nums = gambit_ranks(fg)
    numnames = coq_list(["(%s, %s)" % (coq_N(k), coq_N(rank[str(k)])) for k in nums])
    return "(f_gambit_tree %s %s)" % (numnames, coq_enode(fg, rank)), rank


def coq_jnode(t):
    """raw tree dict in *file order* -> JT/JC/JP term (the model sorts by key as the BTreeMap does)"""
    from .common import coq_float
    from .coqrun import coq_N, coq_list
    if "t" in t:
        return "(JT %s)" % coq_float(b2f(t["t"]))
    if "o" in t:
        info = "None" if t.get("c") is None else "(Some %s)" % coq_N(t["c"])
        outs = coq_list(["(%s, (%s, %s))" % (coq_N(k), coq_float(b2f(w)), coq_jnode(c)) for k, (w, c) in enumerate(t["o"])])
        return "(JC %s %s)" % (info, outs)
    acts = coq_list(["(%s, %s)" % (coq_N(a), coq_jnode(c)) for a, c in t["a"]])
    return "(JP %s %s %s)" % ("true" if t["p"] == 1 else "false", coq_N(t["i"]), acts)
