"""Independent game-theoretic oracles written directly from the definitions (no code shared
with the Coq model or the crate): expected utility and exhaustive best response on raw trees."""
import itertools
import math

from .common import b2f
from .gen import infosets_of


def expected_utility(t, strat):
    """strat: {1: {info: {action: prob}}, 2: {...}}; single-action nodes are followed."""
    def go(n):
        if "t" in n:
            return b2f(n["t"])
        if "o" in n:
            ws = [b2f(w) for w, _ in n["o"]]
            tot = sum(ws)
            return sum(w / tot * go(c) for w, (_, c) in zip(ws, n["o"]))
        if len(n["a"]) == 1:
            return go(n["a"][0][1])
        row = strat[n["p"]].get(n["i"], {})
        return sum(row.get(a, 0.0) * go(c) for a, c in n["a"] if row.get(a, 0.0) > 0.0)
    return go(t)


def count_pure(t, pl):
    multi, _ = infosets_of(t)
    n = 1
    for _, acts in multi[pl]:
        n *= len(acts)
        if n > 10 ** 9:
            break
    return n


def best_response_value(t, strat, pl, limit=4096):
    """max over ALL pure strategies of player pl of that player's utility against strat of the opponent.
    Exhaustive; returns None when there are more than `limit` pure strategies."""
    multi, _ = infosets_of(t)
    infos = multi[pl]
    if count_pure(t, pl) > limit:
        return None
    best = -math.inf
    sign = 1.0 if pl == 1 else -1.0
    for choice in itertools.product(*[acts for _, acts in infos]):
        pure = {info: {a: 1.0} for (info, _), a in zip(infos, choice)}
        s = dict(strat)
        s[pl] = pure
        v = sign * expected_utility(t, s)
        if v > best:
            best = v
    return best


def payoff_range(t):
    lo, hi = math.inf, -math.inf

    def go(n):
        nonlocal lo, hi
        if "t" in n:
            x = b2f(n["t"])
            lo, hi = min(lo, x), max(hi, x)
        elif "o" in n:
            for _, c in n["o"]:
                go(c)
        else:
            for _, c in n["a"]:
                go(c)
    go(t)
    return lo, hi


def strat_from_named(items_by_player):
    """implementation as_named output (harness JSON) -> {1: {info: {a: p}}, 2: {...}}"""
    out = {}
    for pl in (0, 1):
        out[pl + 1] = {it[1]: {a: b2f(p) for a, p in it[3]} for it in items_by_player[pl]["items"]}
    return out


def payoff_mass(t):
    """sum over terminals of (chance reach) x |payoff|: the magnitude of the numbers an evaluation adds up
    (a rare outcome with a huge payoff counts with its probability, not with its size)"""
    def go(n, reach):
        if "t" in n:
            return reach * abs(b2f(n["t"]))
        if "o" in n:
            ws = [b2f(w) for w, _ in n["o"]]
            tot = sum(ws)
            return sum(go(c, reach * w / tot) for w, (_, c) in zip(ws, n["o"]))
        return max(go(c, reach) for _, c in n["a"]) if n["a"] else 0.0
    return go(t, 1.0)
